"""Seeded workload generators (input classes of DESIGN.md section 3.5)."""
import numpy as np

X_CLASSES = ["uniform", "nonuniform", "integer", "epoch", "negative", "small_step"]
Y_CLASSES = ["gauss", "ties", "constant", "signchange", "plateaus", "tiny", "large", "positive"]


def gen_x(rng, m, cls=None):
    cls = cls or X_CLASSES[int(rng.integers(0, len(X_CLASSES)))]
    if cls == "uniform":
        dx = float(rng.choice([1.0, 0.5, 0.25, 2.0, 3600.0, 0.1, 1 / 3, rng.uniform(0.01, 10)]))
        x0 = float(rng.choice([0.0, 5.0, -3.0, rng.normal(0, 10)]))
        x = x0 + dx * np.arange(m)
    elif cls == "nonuniform":
        gaps = np.clip(rng.lognormal(0, 1.0, m - 1), 0.04, 30.0) if m > 1 else np.array([])
        x = np.concatenate([[0.0], np.cumsum(gaps)]) + float(rng.normal(0, 5))
    elif cls == "integer":
        gaps = rng.integers(1, 6, max(m - 1, 0))
        x = (np.concatenate([[0], np.cumsum(gaps)]) + int(rng.integers(-20, 20))).astype(float)
    elif cls == "epoch":
        gaps = rng.choice([60, 300, 3600, 900], max(m - 1, 0)) if rng.integers(0, 2) else np.full(max(m - 1, 0), 3600)
        x = 1.7e9 + np.concatenate([[0], np.cumsum(gaps)]).astype(float)
    elif cls == "negative":
        gaps = np.clip(rng.lognormal(0, 0.7, max(m - 1, 0)), 0.1, 10.0)
        x = -100.0 + np.concatenate([[0.0], np.cumsum(gaps)])
    else:  # small_step
        gaps = rng.uniform(1e-3, 3e-3, max(m - 1, 0))
        x = np.concatenate([[0.0], np.cumsum(gaps)])
    return np.asarray(x, dtype=float), cls


def gen_y(rng, m, cls=None):
    cls = cls or Y_CLASSES[int(rng.integers(0, len(Y_CLASSES)))]
    if cls == "gauss":
        y = rng.normal(0, 1, m) * float(rng.choice([1, 10, 100])) + float(rng.normal(0, 3))
    elif cls == "ties":
        y = rng.integers(0, 4, m).astype(float)
    elif cls == "constant":
        y = np.full(m, float(rng.choice([0.0, 1.0, -2.5, 7.0])))
    elif cls == "signchange":
        y = np.sin(np.arange(m) * rng.uniform(0.3, 2.0)) * rng.uniform(0.5, 5) + rng.normal(0, 0.2, m)
    elif cls == "plateaus":
        k = max(1, m // 3)
        y = np.repeat(rng.normal(0, 3, k + 1), 3)[:m]
        if len(y) < m:
            y = np.concatenate([y, np.full(m - len(y), y[-1])])
    elif cls == "tiny":
        y = rng.uniform(0.5, 5, m) * 1e-9
    elif cls == "large":
        y = rng.uniform(-5, 5, m) * 1e8
    else:
        y = rng.uniform(0.1, 10, m)
    return np.asarray(y, dtype=float), cls


def series(rng, m_lo, m_hi, xcls=None, ycls=None):
    m = int(rng.integers(m_lo, m_hi + 1))
    x, xc = gen_x(rng, m, xcls)
    y, yc = gen_y(rng, m, ycls)
    return x, y, {"m": m, "xcls": xc, "ycls": yc}


def as_container(rng, a, allow=("array", "list", "int", "strided", "readonly")):
    """Return the same values in another container; integer dtype only when values are integral."""
    kind = allow[int(rng.integers(0, len(allow)))]
    a = np.asarray(a, dtype=float)
    if kind == "list":
        return [float(v) for v in a], kind
    if kind == "int":
        if np.all(a == np.round(a)) and np.all(np.abs(a) < 2 ** 52):
            return a.astype(np.int64), kind
        return a.copy(), "array"
    if kind == "strided":
        buf = np.empty(2 * len(a))
        buf[::2] = a
        buf[1::2] = -777.0
        return buf[::2], kind
    if kind == "readonly":
        b = a.copy()
        b.flags.writeable = False
        return b, kind
    return a.copy(), "array"
