"""Seeded workload generators (input classes of DESIGN.md section 3.5)."""
import numpy as np

X_CLASSES = ["uniform", "nonuniform", "integer", "epoch", "negative", "small_step",
             "jitter", "nano", "unit", "straddle"]
Y_CLASSES = ["gauss", "ties", "constant", "signchange", "plateaus", "tiny", "large", "positive",
             "unit01", "near_ties", "pico", "centred"]
# The last classes of each list are "coincidence" classes: almost-uniform grids (inside the default tolerances of
# numpy.allclose / isclose but not uniform), steps and values below 1e-8 in absolute size (absolute-tolerance traps),
# data spanning exactly [0, 1], grids with an exact 0 in the interior, neighbouring averages that differ by a tiny
# non-zero amount.  They exist because "robustness" rewrites with isclose / allclose / truthiness / fast paths only
# misbehave there.


def gen_x(rng, m, cls=None):
    cls = cls or X_CLASSES[int(rng.integers(0, len(X_CLASSES)))]
    if cls == "uniform":
        dx = float(rng.choice([1.0, 0.5, 0.25, 2.0, 3600.0, 0.1, 1 / 3, rng.uniform(0.01, 10)]))
        x0 = float(rng.choice([0.0, 5.0, -3.0, rng.normal(0, 10)]))
        x = x0 + dx * np.arange(m)
    elif cls == "nonuniform":
        gaps = np.clip(rng.lognormal(0, 1.0, m - 1), 0.04, 30.0) if m > 1 else np.array([])
        x = np.concatenate([[0.0], np.cumsum(gaps)]) + float(rng.normal(0, 5))
    elif cls == "integer":
        gaps = rng.integers(1, 6, max(m - 1, 0))
        x = (np.concatenate([[0], np.cumsum(gaps)]) + int(rng.integers(-20, 20))).astype(float)
    elif cls == "epoch":
        gaps = rng.choice([60, 300, 3600, 900], max(m - 1, 0)) if rng.integers(0, 2) else np.full(max(m - 1, 0), 3600)
        x = 1.7e9 + np.concatenate([[0], np.cumsum(gaps)]).astype(float)
    elif cls == "negative":
        gaps = np.clip(rng.lognormal(0, 0.7, max(m - 1, 0)), 0.1, 10.0)
        x = -100.0 + np.concatenate([[0.0], np.cumsum(gaps)])
    elif cls == "small_step":
        gaps = rng.uniform(1e-3, 3e-3, max(m - 1, 0))
        x = np.concatenate([[0.0], np.cumsum(gaps)])
    elif cls == "jitter":
        step = float(rng.choice([1.0, 3600.0, 0.25, 1e-3]))
        rel = float(rng.choice([1e-6, 1e-7, 3e-6]))
        gaps = step * (1.0 + rel * rng.uniform(-1, 1, max(m - 1, 0)))
        x = float(rng.choice([0.0, 5.0, 1.7e9 if step >= 1 else 2.0])) + np.concatenate([[0.0], np.cumsum(gaps)])
    elif cls == "nano":
        gaps = rng.uniform(0.2e-9, 5e-9, max(m - 1, 0))
        x = float(rng.choice([0.0, 1e-7, -3e-8])) + np.concatenate([[0.0], np.cumsum(gaps)])
    elif cls == "unit":
        x = np.linspace(0.0, 1.0, m) if m > 1 else np.array([0.0])
        if m > 2 and rng.integers(0, 2):
            inner = np.sort(rng.uniform(0.02, 0.98, m - 2))
            if np.all(np.diff(inner) > 1e-3):
                x = np.concatenate([[0.0], inner, [1.0]])
    else:  # straddle: integers (or halves) with an exact 0 strictly inside
        k = int(rng.integers(1, max(2, m - 1))) if m > 2 else 0
        gaps = rng.integers(1, 4, max(m - 1, 0)).astype(float)
        x = np.concatenate([[0.0], np.cumsum(gaps)])
        x = x - x[min(k, m - 1)]
        if rng.integers(0, 3) == 0:
            x = x / 2.0
    return np.asarray(x, dtype=float), cls


def gen_y(rng, m, cls=None):
    cls = cls or Y_CLASSES[int(rng.integers(0, len(Y_CLASSES)))]
    if cls == "gauss":
        y = rng.normal(0, 1, m) * float(rng.choice([1, 10, 100])) + float(rng.normal(0, 3))
    elif cls == "ties":
        y = rng.integers(0, 4, m).astype(float)
    elif cls == "constant":
        y = np.full(m, float(rng.choice([0.0, 1.0, -2.5, 7.0])))
    elif cls == "signchange":
        y = np.sin(np.arange(m) * rng.uniform(0.3, 2.0)) * rng.uniform(0.5, 5) + rng.normal(0, 0.2, m)
    elif cls == "plateaus":
        k = max(1, m // 3)
        y = np.repeat(rng.normal(0, 3, k + 1), 3)[:m]
        if len(y) < m:
            y = np.concatenate([y, np.full(m - len(y), y[-1])])
    elif cls == "tiny":
        y = rng.uniform(0.5, 5, m) * 1e-9
    elif cls == "large":
        y = rng.uniform(-5, 5, m) * 1e8
    elif cls == "unit01":
        y = rng.uniform(0, 1, m)
        if m > 1 and float(np.max(y)) > float(np.min(y)):
            y = (y - y.min()) / (y.max() - y.min())
            y[int(np.argmin(y))] = 0.0
            y[int(np.argmax(y))] = 1.0
    elif cls == "near_ties":
        base = rng.integers(0, 4, m).astype(float) * float(rng.choice([1.0, 10.0]))
        y = base + rng.integers(-3, 4, m) * float(rng.choice([1e-9, 4e-9, 1e-12, 2.0 ** -40]))
    elif cls == "pico":
        y = rng.normal(0, 1, m) * 1e-12
    elif cls == "centred":
        # mean removed: the sum cancels to rounding but not exactly (relative tests against the level go wild here)
        y = rng.normal(0, 1, m) * float(rng.choice([1.0, 50.0])) + np.sin(np.arange(m) * 0.7) * 3
        y = y - y.mean()
    else:
        y = rng.uniform(0.1, 10, m)
    return np.asarray(y, dtype=float), cls


def series(rng, m_lo, m_hi, xcls=None, ycls=None):
    m = int(rng.integers(m_lo, m_hi + 1))
    x, xc = gen_x(rng, m, xcls)
    y, yc = gen_y(rng, m, ycls)
    return x, y, {"m": m, "xcls": xc, "ycls": yc}


def huge_size(rng, hi=90001):
    """sizes of the 'huge' kinds: beyond 2**16 (a day of per-second samples) or, one time in three, between 2**15 and
    2**16 (a month of per-minute samples) - the window in which a 16-bit index or count still fits unsigned only"""
    if rng.integers(0, 3) == 0:
        return int(rng.integers(32769, 65536))
    return int(rng.integers(66000, hi))


def as_container(rng, a, allow=("array", "list", "int", "strided", "readonly", "series", "tuple", "byteswapped", "reversed_view",
                                 "array.array", "deque", "list_of_numpy_scalars")):
    """Return the same values in another container; integer dtype only when values are integral."""
    kind = allow[int(rng.integers(0, len(allow)))]
    a = np.asarray(a, dtype=float)
    if kind == "list":
        return [float(v) for v in a], kind
    if kind == "int":
        if np.all(a == np.round(a)) and np.all(np.abs(a) < 2 ** 52):
            if np.all(np.abs(a) < 2 ** 24) and rng.integers(0, 2):
                return a.astype(np.int32), "int32"
            return a.astype(np.int64), kind
        return a.copy(), "array"
    if kind == "strided":
        buf = np.empty(2 * len(a))
        buf[::2] = a
        buf[1::2] = -777.0
        return buf[::2], kind
    if kind == "readonly":
        b = a.copy()
        b.flags.writeable = False
        return b, kind
    if kind == "list_of_numpy_scalars":      # list(column): the elements keep the column's (possibly narrow) NumPy type
        return list(np.asarray(a)), kind
    if kind == "tuple":
        return tuple(float(v) for v in a), kind
    if kind == "byteswapped":
        # data received in network byte order: same values, non-native dtype ('>f8' on this machine)
        return a.astype(a.dtype.newbyteorder()), kind
    if kind == "reversed_view":
        # a view with a NEGATIVE stride onto storage that holds the values back to front
        return a[::-1].copy()[::-1], kind
    if kind == "deque":
        # the rolling window of the last N averages: a sequence with len, indexing and iteration - but no slicing
        import collections
        return collections.deque([float(v) for v in a], maxlen=len(a) + 3), kind
    if kind == "array.array":
        import array
        return array.array("d", [float(v) for v in a]), kind
    if kind == "series":
        # a pandas column whose index is NOT positional (sorted / filtered frame): s[0], s[-1] are label look-ups
        import pandas as pd
        n = len(a)
        idx = [int(v) for v in rng.permutation(n) + int(rng.integers(0, 3))] if rng.integers(0, 2) else \
            ["r%d" % v for v in range(n)]
        return pd.Series(a.copy(), index=idx), kind
    if kind in ("float32", "float16"):
        # only offered where the code under test up-casts on entry; the caller's values are what the narrow array holds
        return a.astype(np.float32 if kind == "float32" else np.float16), kind
    return a.copy(), "array"


def narrow(rng, a, p=0.15):
    """with probability p, re-express the values in float32 / float16 (returns the narrow array and its float64 image)"""
    a = np.asarray(a, dtype=float)
    if rng.uniform() >= p:
        return a, a, "float64"
    dt = np.float32 if rng.integers(0, 3) else np.float16
    b = a.astype(dt)
    if not np.all(np.isfinite(b.astype(float))):
        return a, a, "float64"
    return b, b.astype(float), dt.__name__


COUNT_TYPES = [int, np.int64, np.int32, np.intp, np.int16, np.uint8, np.uint16, np.uint32, np.uint64, np.int8]


def count_arg(rng, k, p=0.35):
    """a count (oversampling factor, number of copies, interval size) the way callers have it at hand: a Python int or,
    with probability p, a NumPy integer scalar - signed or unsigned, as wide as the column it was read from.
    Returns (value, type name); the value always equals k."""
    if rng.uniform() >= p:
        return int(k), "int"
    for _ in range(8):
        t = COUNT_TYPES[int(rng.integers(1, len(COUNT_TYPES)))]
        if int(k) <= np.iinfo(t).max:
            return t(k), t.__name__
    return int(k), "int"


def mixed_steps_x(rng, m):
    """steps of very different size in ONE series, the narrow ones next to x = 0 where the grid resolves them fully:
    (a) gaps shrinking geometrically over 5..8 decades towards the origin, or (b) a regular polling grid in which one
    poll was repeated 1e-5..1e-3 of a step later.  Used only by the integral properties (per-interval quantities must
    not inherit rounding from the wide intervals before them)."""
    if m < 4:
        return None
    if rng.integers(0, 2):
        decades = float(rng.uniform(5, 8))
        gaps = 10.0 ** (-decades * np.arange(m - 1) / (m - 2))          # 1 ... 10**-decades
        gaps = gaps * float(rng.choice([1.0, 300.0, 0.01]))
        x = -np.cumsum(gaps[::-1])[::-1]                                # ..., -(g_last + g_prev), -g_last
        x = np.concatenate([x, [0.0]])
        if rng.integers(0, 2):
            x = -x[::-1]                                                # mirrored: narrow first, then wide
        return np.asarray(x, dtype=float), "mixed_steps:geometric"
    step = float(rng.choice([300.0, 1.0, 3600.0]))
    j = int(rng.integers(1, m - 2))
    x = step * (np.arange(m - 1, dtype=float) - j)
    x = np.sort(np.concatenate([x, [step * float(rng.choice([1e-5, 1e-4, 1e-3]))]]))
    return np.asarray(x, dtype=float), "mixed_steps:repeated_poll"


def fresh_str(rng, s, p=0.5):
    """a name argument the way programs have it at hand: the literal itself or, with probability p, an EQUAL string that
    is a different object - built at run time (read from a configuration file, lower-cased, joined; CPython interns
    only literals, so identity comparisons with the library's own literals fail for these), a numpy.str_ taken from an
    array of names, or an instance of a str subclass (enum-like constants)"""
    if not isinstance(s, str) or rng.uniform() >= p:
        return s
    t = int(rng.integers(0, 4))
    if t == 0:
        return "".join([c for c in s])              # equal, not interned, not identical to any literal
    if t == 1:
        return (" " + s.upper() + " ").strip().lower() if s.islower() else "".join(list(s))
    if t == 2:
        return np.array([s, "x"])[0]                # numpy.str_
    return _Name(s)


class _Name(str):
    """a str subclass, as produced by enum.StrEnum-like constants"""
    __slots__ = ()


def index_arg(rng, k, p=0.35):
    """an index the way callers have it at hand: a Python int or a NumPy integer scalar (np.argmax, np.searchsorted and
    loops over np.arange produce those); unsigned types only for non-negative values"""
    k = int(k)
    if rng.uniform() >= p:
        return k
    types = [np.int64, np.int32, np.intp, np.int16] + ([np.uint8, np.uint16, np.uint32, np.uint64] if k >= 0 else [])
    for _ in range(8):
        t = types[int(rng.integers(0, len(types)))]
        if np.iinfo(t).min <= k <= np.iinfo(t).max:
            return t(k)
    return k
