"""C15 - noise is purely additive and obeys the signal-to-noise definition."""
import math

import numpy as np

from . import _rfa as R
from .. import callform, gen, tol
from ..core import fp_watch

PROPERTY = "C15"
LEVEL = "exploration"
LEVEL_TEXT = ("RNG-tap monitor: the global generator's Gaussian entry points (numpy.random.normal, standard_normal, "
              "randn) are wrapped so that every call's loc, scale, size and returned draw are recorded; for each real "
              "noise_gauss / Weaver.noise call one draw of n values must have been taken and what was added to the "
              "signal must be sqrt(mean(a^2)/SNR) (dB or linear, per sample for array snr; or the given std) times the "
              "standardised draw - bit for bit when the deviation is passed to the generator as today, to rounding "
              "when it is applied in another way - length and x unchanged, same seed -> same result. A statistical monitor (no tap needed) measures the empirical SNR and mean of "
              "out - a on series of 2*10^5 samples. Sampled.")
LEVEL_NOTE = ("The tap observes the library boundary numpy.random.* looked up at call time; if the code drew its "
              "noise in several calls or from elsewhere the tap clauses would be reported inconclusive while the statistical clause still "
              "decides (|SNR error| <= 0.1 dB, |mean| <= 6 sigma / sqrt(N)).")
TECHNIQUE = "RNG-tap runtime monitor on numpy.random.normal / standard_normal / randn (arguments and returned draw) + statistical monitor on long series"
RULE = ("tapped calls: signals of 1..200 samples (non-constant, sign-changing, integer, tiny / large power) x snr scalar / "
        "list / array x dB / linear x explicit std, function and Weaver route; statistical runs: N = 2*10^5, snr in dB "
        "and linear, several signal shapes. non-trivial: non-constant signal whose mean(a^2) != mean(a)^2 and != 1; "
        "distinct by case index."
        " Also: the same array object passed again after an in-place change, integer signals whose squares do not fit their dtype (int16 / int32 / int64 / uint8), noise through the Weaver after a random history, all arguments omitted (default std 1.0)."
        " Round-4 classes: SNR levels (scalar or per-sample) as whole numbers in NumPy integer types, signed / unsigned / narrow; snr, snr_in_db, std positionally."
        " Round-5 classes: one-element level arrays on longer signals, the flag as numpy.bool_."
        " Round-6 classes: two requests in a row without re-seeding (the second must add other noise, the first must be the seeded one)."
        " Round-7 classes: a 'huge' kind - 66 000..90 000 samples whose power varies along the series."
        " Round-8: judged on what was ADDED (deviation x standardised tapped draw), so the deviation may be the generator's scale or multiplied onto unit draws; taps also on standard_normal / randn."
        " Round-10 classes: 1.1-1.6 million samples (more than 2**20, not a multiple of it) with power rising along the series.")
REQUIRED_MONITORS = ["c15:consecutive_requests", "c15:tap", "c15:statistical", "c15:reproducible", "c15:same_object_again"]
ASSUMPTIONS = ["SNR > 0; the global NumPy RNG is the documented noise source"]
NSHARDS = 16


def plan(tier, seed):
    n = 6000 if tier == "quick" else 500000
    k = 8 if tier == "quick" else 416
    specs = [{"kind": "tapped", "start": p * (n // NSHARDS), "count": n // NSHARDS} for p in range(NSHARDS)]
    per = max(1, k // NSHARDS)
    specs += [{"kind": "statistical", "start": p * per, "count": per} for p in range(min(NSHARDS, k))]
    specs += [{"kind": "huge", "start": 6 * p, "count": 6} for p in range(1 if tier == "quick" else 8)]
    return specs


class Tap:
    """records every draw from the global generator's Gaussian entry points (normal, standard_normal, randn)"""

    def __init__(self):
        self.calls = []
        self.orig = np.random.normal
        self.orig_sn = np.random.standard_normal
        self.orig_randn = np.random.randn

    def __enter__(self):
        def tapped(loc=0.0, scale=1.0, size=None):
            out = self.orig(loc=loc, scale=scale, size=size)
            self.calls.append({"loc": loc, "scale": scale, "size": size, "out": out})
            return out

        def tapped_sn(size=None, *a, **k):
            out = self.orig_sn(size, *a, **k)
            self.calls.append({"loc": 0.0, "scale": 1.0, "size": size, "out": out})
            return out

        def tapped_randn(*dims):
            out = self.orig_randn(*dims)
            self.calls.append({"loc": 0.0, "scale": 1.0, "size": dims, "out": out})
            return out
        np.random.normal = tapped
        np.random.standard_normal = tapped_sn
        np.random.randn = tapped_randn
        return self

    def __exit__(self, *a):
        np.random.normal = self.orig
        np.random.standard_normal = self.orig_sn
        np.random.randn = self.orig_randn


def judge_draw(c, af, out, want, n):
    """None when the tapped draw and the result agree with the statement, else (clause, detail).

    Strong form first (what the code does today): the generator is asked for exactly the documented deviation and the
    result is input + draw, bit for bit.  Otherwise the statement is judged on what was ADDED: with z the standardised
    tapped draw, out - a must be want * z to rounding - however the deviation reached the samples (passed as the
    generator's scale, or multiplied onto standard draws afterwards)."""
    draw = np.asarray(c["out"], dtype=float)
    if draw.shape != (n,):
        return "noise_size", {"size": c["size"], "drawn_shape": list(draw.shape)}
    loc = np.asarray(c["loc"], dtype=float)
    sc = np.asarray(c["scale"], dtype=float)
    wantf = np.asarray(want, dtype=float)
    strong = sc.shape == wantf.shape and bool(np.all(np.abs(sc - wantf) <= 1e-9 * np.abs(wantf) + 1e-300)) and \
        bool(np.all(loc == 0)) and np.array_equal(out, af + draw)
    if strong:
        return None
    if sc.shape not in ((), (n,), (1,)) or wantf.shape not in ((), (n,), (1,)):
        return "noise_scale", {"tapped_scale_shape": list(sc.shape), "want_shape": list(wantf.shape)}
    scb = np.broadcast_to(sc, (n,))
    wb = np.broadcast_to(wantf, (n,))
    with np.errstate(all="ignore"):
        z = np.where(scb > 0, (draw - loc) / np.where(scb > 0, scb, 1.0), 0.0)
    if np.any((scb <= 0) & (wb > 0)):
        return "noise_scale", {"tapped_scale": sc, "want": want, "why": "degenerate draw where noise is due"}
    expect = wb * z
    added = np.asarray(out, dtype=float) - af
    tol = 1e-9 * np.abs(expect) + 8 * np.finfo(float).eps * (np.abs(af) + np.abs(expect)) + 1e-300
    bad = np.abs(added - expect) > tol
    if np.any(bad):
        i = int(np.argmax(bad))
        clause = "noise_not_zero_mean" if np.any(loc != 0) and not np.any(np.abs(added - loc - expect) > tol + 1e-9 * np.abs(loc)) \
            else "noise_scale"
        return clause, {"tapped_scale": sc, "tapped_loc": loc, "want": want, "at": i, "added": float(added[i]),
                        "expected_added": float(expect[i])}
    return None


def gen_signal(rng, n):
    t = int(rng.integers(0, 7))
    if t == 6:
        # integer counters whose squares do not fit the integer dtype (the power is a floating-point quantity)
        dt, top = [(np.int16, 3 * 10 ** 4), (np.int32, 2 * 10 ** 9), (np.int64, 2 * 10 ** 12), (np.uint8, 255)][int(rng.integers(0, 4))]
        a = rng.integers(top // 4, top, n).astype(dt)
        return a, "int_large:" + np.dtype(dt).name
    if t == 0:
        a = rng.normal(0, 1, n) * float(rng.choice([1, 10, 0.01]))
    elif t == 1:
        a = np.sin(np.arange(n) * 0.3) * 5 + 2
    elif t == 2:
        a = rng.integers(-5, 20, n).astype(np.int64)
    elif t == 3:
        a = rng.uniform(1, 3, n) * 1e6
    elif t == 4:
        a = rng.uniform(1, 3, n) * 1e-6
    else:
        a = np.full(n, float(rng.choice([1.0, 2.0, -3.0])))
    return a, ["gauss", "sine+offset", "int", "large", "tiny", "constant"][t]


def run_tapped_case(ctx, kind_, idx):
    from traffic_weaver import Weaver
    from traffic_weaver.process import noise_gauss
    rng = ctx.rng(kind_, idx)
    cid = ctx.case_id(kind_, idx)
    n = int(rng.integers(1, 201))
    a, acls = gen_signal(rng, n)
    if kind_ == "huge":
        # a day of per-second traffic: 66 000..90 000 samples whose POWER varies along the series (quiet night, busy
        # evening) - mean(y^2) is one number for the whole signal, whatever way it is accumulated
        n = gen.huge_size(rng)
        if idx % 6 == 5:
            # two weeks of per-second samples: more than 2**20, and not a multiple of it (a power accumulated block by
            # block must weigh the last, shorter block by its length)
            n = int(rng.integers(2 ** 20 + 50000, int(1.6 * 2 ** 20)))
        u = np.linspace(0.0, 1.0, n)
        a = (0.2 + 4.0 * u ** 2) * (1.0 + 0.3 * np.sin(40 * u)) + rng.normal(0, 0.05, n)
        acls = "long_varying_power"
    t = int(rng.integers(0, 6))
    # narrow / unsigned integer containers are only handed to the function itself: inside a Weaver every later shift or
    # scale would run into NumPy's own integer semantics (OverflowError for -2 on uint8), which no property speaks about
    via_weaver = bool(rng.integers(0, 3) == 0) and n >= 2 and not acls.startswith("int_large")
    kw = {}
    if t == 5:          # nothing given: the documented default std = 1.0 applies
        snr = None
    if t == 5:
        pass
    elif t == 0:
        snr = float(rng.uniform(-5, 60))
    elif t == 1:
        snr = float(rng.uniform(0.5, 1000))
        kw["snr_in_db"] = False
    elif t == 2:
        snr = None
        kw["std"] = float(rng.uniform(0.001, 10))
    elif t == 3:
        snr = rng.uniform(0, 40, n)
        if rng.integers(0, 2):
            snr = [float(v) for v in snr]
    else:
        snr = rng.uniform(1, 100, n)
        kw["snr_in_db"] = False
    if snr is not None and rng.integers(0, 3) == 0:
        # the flag spelled out, as a Python bool or as the NumPy boolean a comparison (unit == "dB") yields
        flag = bool(kw.get("snr_in_db", True))
        kw["snr_in_db"] = [flag, np.bool_(flag)][int(rng.integers(0, 2))]
    if n > 1 and t in (0, 1) and rng.integers(0, 5) == 0:
        # one level for the whole signal, held in a one-element list / array (a configuration row): every sample still
        # gets its OWN noise term
        snr = [snr] if rng.integers(0, 2) else np.array([snr])
        kw["_one_element_level"] = True
    elif n > 1 and t == 2 and rng.integers(0, 5) == 0:
        kw["std"] = [kw["std"]] if rng.integers(0, 2) else np.array([kw["std"]])
    if snr is not None and rng.integers(0, 4) == 0:
        # levels as they come out of a configuration table or an integer column: whole numbers in a NumPy integer
        # type, signed or unsigned, narrow or wide (10 ** (snr / 10) and sp / snr are floating-point quantities)
        dt = [np.int64, np.int8, np.int16, np.uint8, np.uint16, np.uint32, np.uint64, int][int(rng.integers(0, 8))]
        whole = np.clip(np.round(np.abs(np.asarray(snr, dtype=float))), 1, 100)
        if isinstance(snr, (list, np.ndarray)):
            snr = whole.astype(dt if dt is not int else np.int64)
        else:
            snr = dt(int(whole))
        kw["_snr_type"] = np.dtype(dt).name if dt is not int else "int"
    snr_type = kw.pop("_snr_type", None)
    one_level = kw.pop("_one_element_level", False)
    info = {"n": n, "signal": acls, "snr": snr if not isinstance(snr, (list, np.ndarray)) else "per-sample",
            "snr_type": snr_type, "one_element_level": one_level, "kw": kw, "via_weaver": via_weaver}
    if n <= 8:
        info["a"] = a
    npseed = int(rng.integers(0, 2 ** 31 - 1))
    if acls.startswith("int_large"):
        ain = np.array(a)           # keep the narrow integer dtype: that is the point of the class
    else:
        ain, _k = gen.as_container(rng, a, allow=("array", "list", "readonly", "series", "tuple"))
    if via_weaver:
        ain = np.array(a)
    a_before = np.array(a).copy()
    try:
        with fp_watch(ctx), Tap() as tap:
            np.random.seed(npseed)
            if via_weaver:
                x = np.arange(n, dtype=float) * 0.5 + 3
                wv = Weaver(x.copy(), ain)
                if rng.integers(0, 2) and n >= 4 and not isinstance(snr, (list, np.ndarray)):
                    # the signal power is that of the CURRENT series: noise after a random history
                    from . import _weaver_ops as W
                    info["history"] = W.random_history(rng, wv, 1, 3, allow=["shift_y", "scale_y", "shift_x", "repeat",
                                                                              "append_one_sample", "truncate_by_index"],
                                                       max_len=400)
                    x, a = (np.array(v, dtype=float).copy() for v in wv.get())
                    n = len(a)
                    ain = np.array(a)
                    a_before = np.array(a).copy()
                    np.random.seed(npseed)
                if snr is None:
                    wv.noise(None, **kw)
                else:
                    wv.noise(snr, **kw)
                gx, out = wv.get()
                if not np.array_equal(gx, x):
                    ctx.judged()
                    ctx.violation("noise_changed_x", cid, {"case": info})
                    return
            else:
                out = callform.call(rng, noise_gauss, "process.noise_gauss", [ain], dict(kw, snr=snr), p_pos=0.4) \
                    if snr is not None else noise_gauss(ain, **kw)
    except Exception as e:
        ctx.judged()
        ctx.exception("raised_on_admissible_input", cid, e, {"case": info})
        return
    ctx.judged()
    if not (isinstance(out, np.ndarray) and out.shape == (n,)):
        ctx.violation("noise_changed_length", cid, {"shape": getattr(out, "shape", None), "case": info})
        return
    if not np.array_equal(np.asarray(ain), a_before):
        ctx.violation("noise_modified_input", cid, {"case": info})
        return
    if len(tap.calls) != 1:
        ctx.count("tap_saw_%d_calls" % len(tap.calls))
        return
    ctx.monitor("c15:tap")
    c = tap.calls[0]
    af = np.asarray(a, dtype=float)
    sp = float(np.mean(af * af))
    if snr is None:
        want = np.float64(kw.get("std", 1.0))
    else:
        s = np.asarray(snr, dtype=float)
        lin = 10.0 ** (s / 10.0) if kw.get("snr_in_db", True) else s
        want = np.sqrt(sp / lin)
    verdict = judge_draw(c, af, out, want, n)
    if verdict is not None:
        ctx.violation(verdict[0], cid, dict(verdict[1], signal_power=sp, case=info))
        return
    # the signal power is that of the array's CURRENT content: same object again after an in-place change
    if not via_weaver and isinstance(ain, np.ndarray) and ain.flags.writeable and ain.dtype.kind == "f" and snr is not None \
            and rng.integers(0, 3) == 0:
        factor = float(rng.choice([10.0, 0.05, -3.0]))
        ain *= factor
        with Tap() as tap2:
            np.random.seed(npseed)
            outb = noise_gauss(ain, snr, **kw)
        ctx.monitor("c15:same_object_again")
        if len(tap2.calls) == 1:
            s_ = np.asarray(snr, dtype=float)
            lin_ = 10.0 ** (s_ / 10.0) if kw.get("snr_in_db", True) else s_
            afb = np.asarray(ain, dtype=float)
            want2 = np.sqrt(float(np.mean(afb ** 2)) / lin_)
            v2 = judge_draw(tap2.calls[0], afb, outb, want2, n)
            if v2 is not None:
                ctx.violation("noise_scale_after_in_place_change_of_the_same_array", cid,
                              dict(v2[1], factor=factor, clause=v2[0], case=info))
                return
    # every request draws FRESH noise from the global generator: two requests in a row without re-seeding must not add
    # the same numbers (and the first of them is the seeded one again)
    if n >= 4 and np.all(np.asarray(c["scale"], dtype=float) > 0) and rng.integers(0, 3) == 0:
        np.random.seed(npseed)
        with Tap() as tapa:
            noise_gauss(np.array(a), snr, **kw) if snr is not None else noise_gauss(np.array(a), **kw)
        with Tap() as tapb:
            noise_gauss(np.array(a), snr, **kw) if snr is not None else noise_gauss(np.array(a), **kw)
        ctx.monitor("c15:consecutive_requests")
        if len(tapa.calls) == 1 and len(tapb.calls) == 1:
            if not np.array_equal(tapa.calls[0]["out"], c["out"]):
                ctx.violation("not_reproducible_with_fixed_seed", cid, {"case": info, "at": "first of two consecutive requests"})
                return
            if np.array_equal(tapb.calls[0]["out"], tapa.calls[0]["out"]):
                ctx.violation("consecutive_requests_add_the_same_noise", cid, {"case": info})
                return
    # reproducibility with a fixed seed
    np.random.seed(npseed)
    out2 = noise_gauss(np.array(a), snr, **kw) if snr is not None else noise_gauss(np.array(a), **kw)
    ctx.monitor("c15:reproducible")
    if not np.array_equal(out, out2):
        ctx.violation("not_reproducible_with_fixed_seed", cid, {"case": info})
        return
    m1 = float(np.mean(af))
    if acls != "constant" and abs(sp - m1 * m1) > 1e-3 * sp and abs(sp - 1.0) > 1e-3:
        ctx.nontriv("c15", idx)
    if idx % 1000 == 16:
        ctx.sample(info)


def run_statistical_case(ctx, kind_, idx):
    from traffic_weaver.process import noise_gauss
    rng = ctx.rng(kind_, idx)
    cid = ctx.case_id(kind_, idx)
    N = 200000
    t = idx % 4
    tt = np.arange(N)
    a = [np.sin(tt * 0.01) * 3 + 1.5, rng.normal(2, 5, N), np.where(tt % 2 == 0, 4.0, -1.0) * 1e3,
         np.abs(rng.normal(0, 1, N)) * 1e-3 + 1e-3][t]
    db = bool(idx % 2 == 0)
    snr_db = float(rng.uniform(0, 40))
    arg = snr_db if db else 10 ** (snr_db / 10)
    np.random.seed(int(rng.integers(0, 2 ** 31 - 1)))
    try:
        out = noise_gauss(a, arg, snr_in_db=db)
    except Exception as e:
        ctx.judged()
        ctx.exception("raised_on_admissible_input", cid, e)
        return
    ctx.judged()
    ctx.monitor("c15:statistical")
    d = out - a
    sp = float(np.mean(a * a))
    emp = 10 * math.log10(sp / float(np.var(d)))
    sigma = math.sqrt(sp / 10 ** (snr_db / 10))
    info = {"signal": t, "snr_db": snr_db, "given_in_db": db, "empirical_snr_db": emp,
            "mean_of_noise": float(np.mean(d)), "sigma": sigma, "N": N}
    ctx.track_worst("snr_error_db", abs(emp - snr_db))
    if not abs(emp - snr_db) <= 0.1:
        ctx.violation("empirical_snr", cid, info)
        return
    if not abs(float(np.mean(d))) <= 6 * sigma / math.sqrt(N):
        ctx.violation("noise_mean", cid, info)
        return
    ctx.nontriv("stat", idx)
    ctx.sample(info)


def run(ctx, spec):
    f = run_statistical_case if spec["kind"] == "statistical" else run_tapped_case
    for idx in range(spec["start"], spec["start"] + spec["count"]):
        f(ctx, spec["kind"], idx)


def replay(ctx, case):
    (run_statistical_case if case["kind"] == "statistical" else run_tapped_case)(ctx, case["kind"], case["idx"])
