"""C16 - smoothing and the spline function respect the smoothing condition."""
import warnings

import numpy as np

from . import _rfa as R
from .. import callform, tol
from ..core import fp_watch

PROPERTY = "C16"
LEVEL = "exploration"
LEVEL_TEXT = ("Post-condition monitor on Weaver.to_function / Weaver.smooth / process.spline_smooth: to_function()(x_i) = "
              "y_i, smooth(s) keeps x and the length and its summed squared deviation does not exceed 1.001*s, smooth(0) "
              "and smoothing of affine data are the identity, and spline_smooth with s omitted is compared "
              "differentially with a direct SciPy call using s = len(y)*var(y). Runs in which FITPACK reports "
              "non-convergence (RuntimeWarning) are discarded and counted. Sampled.")
LEVEL_NOTE = ("Trusts scipy.interpolate.splrep/BSpline as the differential reference for the default-s clause; residual "
              "bound 1.001*s + rounding; interpolation clauses at 1e-9 relative times the spacing ratio.")
TECHNIQUE = "runtime post-condition monitor (residual bound, identity cases) + differential monitor vs direct SciPy call"
RULE = ("case = series of 5..80 points (uniform / non-uniform; smooth, noisy or affine) x s in {0} U logU[1e-4, 1e2] (or s "
        "omitted) x {to_function, smooth, spline_smooth}. non-trivial: s > 0 on non-affine data with a residual that "
        "actually changed the series, or an interpolation case on non-affine data; distinct by case index."
        " Also: requests after random histories, a second to_function() after an earlier one followed by further processing or by an in-place write through the arrays get() hands out, series centred to zero mean to rounding, levels far from zero."
        " Round-4 classes: a 'long' kind - 1001..2500 samples, two series agreeing at both ends and differing in the middle fitted one after the other with the same s (two objects, the same object before / after the event, the function), each judged against its own samples."
        " Round-5 classes: a 'huge' kind - 33 000..70 000 samples (smooth signal + tiny noise, s well above the noise energy)."
        " Round-6 classes: a 'sizes' kind - lengths 2**15, 2**16, 40000 .. 80000, each -1 / 0 / +1, smoothed with s = 0 and with s > 0."
        " Round-7 classes: a smoothing step before the caller edits the get() array in place and asks for the function; excess residuals that SciPy's own splrep reproduces while reporting success are the known finding K3."
        " Round-9 classes: to_function() evaluated half a step and one ulp outside either end of the data (must be finite).")
REQUIRED_MONITORS = ["c16:long_series", "c16:special_sizes", "c16:to_function", "c16:smooth_residual", "c16:smooth_zero", "c16:affine", "c16:default_s"]
ASSUMPTIONS = ["FITPACK non-convergence warnings discard the run (the property's quantifier)"]
NSHARDS = 16
DISCARD_HEAVY_OK = False


def plan(tier, seed):
    n = 8000 if tier == "quick" else 500000
    big = 2 if tier == "quick" else 40
    return [{"kind": "random", "start": p * (n // NSHARDS), "count": n // NSHARDS} for p in range(NSHARDS)] + \
        [{"kind": "long", "start": p * big, "count": big} for p in range(NSHARDS)] + \
        [{"kind": "huge", "start": p, "count": 1} for p in range(2 if tier == "quick" else 12)] + \
        [{"kind": "sizes", "start": 7 * p, "count": 7} for p in range(3 if tier == "quick" else 6)]


def gen_data(rng):
    m = int(rng.integers(5, 81))
    from .. import gen
    x, xc = gen.gen_x(rng, m, ["uniform", "nonuniform", "negative", "integer", "small_step"][int(rng.integers(0, 5))])
    t = int(rng.integers(0, 4))
    u = (x - x[0]) / (x[-1] - x[0])
    if t == 0:
        y = np.sin(u * rng.uniform(2, 12)) * rng.uniform(0.5, 5) + rng.normal(0, 1)
    elif t == 1:
        y = np.sin(u * rng.uniform(2, 12)) * 3 + rng.normal(0, 0.5, m)
    elif t == 2:
        y = rng.normal(0, 1, m) * float(rng.choice([1, 10]))
    else:
        y = float(rng.normal(0, 3)) * u + float(rng.normal(0, 2))
    if t != 3 and rng.integers(0, 5) == 0:
        y = y - y.mean()            # centred series: the level is zero to rounding, not exactly
    elif rng.integers(0, 3) == 0:
        # a level far from zero compared with the wiggles (traffic volumes): anything that rescales instead of smoothing
        # moves every sample by level * epsilon
        y = y + float(rng.choice([10.0, 1000.0, -50.0, 1e6]))
    return x, y, {"m": m, "xcls": xc, "ycls": ["smooth", "noisy", "white", "affine"][t]}


def fitpack_inconsistent(x, y, s, gy):
    """Mechanism classifier of the known finding K3.  SciPy's splrep itself is asked for the same fit with full output: if
    it reports success (ier <= 0) with a residual fp within 0.1 % of s, and the spline it returns - evaluated by SciPy -
    reproduces the library's values and therefore the same excessive deviation, the defect is FITPACK's (its reported
    residual does not belong to the coefficients it returns), not the library's.  Anything else is no known finding."""
    try:
        from scipy.interpolate import BSpline, splrep
        with warnings.catch_warnings():
            warnings.simplefilter("ignore")
            tck, fp, ier, _msg = splrep(np.asarray(x, dtype=float), np.asarray(y, dtype=float), s=s, full_output=1)
            direct = np.asarray(BSpline(*tck)(np.asarray(x, dtype=float)), dtype=float)
        same = direct.shape == np.shape(gy) and bool(np.allclose(direct, np.asarray(gy, dtype=float), rtol=1e-9, atol=0.0))
        if ier <= 0 and abs(fp - s) <= 0.0011 * s and same:
            return "K3-fitpack-returns-spline-inconsistent-with-its-reported-residual"
    except Exception:
        pass
    return None


def run_case(ctx, kind_, idx):
    from scipy.interpolate import BSpline, splrep
    from traffic_weaver import Weaver
    from traffic_weaver.process import spline_smooth
    rng = ctx.rng(kind_, idx)
    cid = ctx.case_id(kind_, idx)
    x, y, meta = gen_data(rng)
    mode = ["to_function", "smooth", "smooth", "smooth_zero", "default_s"][int(rng.integers(0, 5))]
    s = float(10 ** rng.uniform(-4, 2))
    info = dict(meta, mode=mode, s=s if mode == "smooth" else None)
    if len(x) <= 10:
        info.update({"x": x, "y": y})
    mag = float(np.max(np.abs(y))) or 1.0
    gaps = np.diff(x)
    ratio = float(np.max(gaps) / np.min(gaps))
    irel = 1e-9 * max(1.0, ratio) + 100 * tol.cond_x(x)
    ctx.count("mode:%s" % mode)
    try:
        with warnings.catch_warnings(record=True) as wlog:
            warnings.simplefilter("always")
            wv = Weaver(x.copy(), y.copy())
            if mode != "default_s" and rng.integers(0, 2):
                # "a Weaver can be sampled anywhere consistently with get()": judge against the CURRENT series, after
                # a random history, and after an earlier to_function() call followed by further processing
                from . import _weaver_ops as W
                hist = W.random_history(rng, wv, 0, 2, allow=["shift_x", "scale_x", "shift_y", "scale_y",
                                                                "truncate_by_index", "append_one_sample"], max_len=200)
                if len(wv.get()[0]) >= 5:
                    if mode == "to_function":
                        wv.to_function()(float(wv.get()[0][0]))
                        hist.append("to_function()")
                    if mode == "to_function" and rng.integers(0, 3) == 0:
                        # a smoothing step first: afterwards the series is an array the LIBRARY created; the caller still
                        # gets it from get() and may edit it in place (below) before asking for the function
                        wv.smooth(float(rng.choice([0.0, 0.05, 1.0])))
                        hist.append("smooth")
                    if mode == "to_function" and rng.integers(0, 2):
                        # get() hands out the Weaver's own arrays: a caller that post-processes them in place (clipping,
                        # masking) must still get a function consistent with what get() now returns
                        gy = wv.get()[1]
                        if isinstance(gy, np.ndarray) and gy.flags.writeable and gy.dtype.kind == "f":
                            k = int(rng.integers(0, len(gy)))
                            gy[k] += float(rng.choice([1.0, -2.5])) * (float(np.max(np.abs(gy))) or 1.0)
                            hist.append("in-place write into get()[1][%d]" % k)
                    else:
                        hist += W.random_history(rng, wv, 1, 2, allow=["shift_y", "scale_y", "trend", "noise", "normalize_y"])
                    info["history"] = hist
                    x, y = (np.array(a, dtype=float).copy() for a in wv.get())
                    meta["ycls"] = "after_history"
                    mag = float(np.max(np.abs(y))) or 1.0
                    gaps = np.diff(x)
                    ratio = float(np.max(gaps) / np.min(gaps))
                    irel = 1e-9 * max(1.0, ratio) + 100 * tol.cond_x(x)
                else:
                    wv = Weaver(x.copy(), y.copy())
            if mode == "to_function":
                f = wv.to_function() if rng.integers(0, 2) else \
                    callform.call(rng, wv.to_function, "Weaver.to_function", [], {"s": 0}, p_pos=0.5)      # 0 is the documented default
                got = np.asarray(f(x), dtype=float)
                mid = (x[:-1] + x[1:]) / 2
                # "sampled anywhere": between the samples and also just outside them (a time grid built with arange ends
                # a step beyond the last sample; one ulp outside either end)
                outside = np.array([x[0] - 0.5 * (x[1] - x[0]), np.nextafter(x[0], -np.inf), np.nextafter(x[-1], np.inf),
                                    x[-1] + 0.5 * (x[-1] - x[-2])])
                got_mid = np.concatenate([np.asarray(f(mid), dtype=float), np.asarray(f(outside), dtype=float)])
            elif mode == "smooth":
                callform.call(rng, wv.smooth, "Weaver.smooth", [s], p_kw=0.3)
            elif mode == "smooth_zero":
                wv.smooth(0)
            else:
                f = callform.call(rng, spline_smooth, "process.spline_smooth", [x.copy(), y.copy()], p_kw=0.3)
                got = np.asarray(f(x), dtype=float)
        if any(issubclass(w.category, RuntimeWarning) for w in wlog):
            ctx.discard("fitpack_warning")
            return
        ctx.judged()
        if mode == "to_function":
            ctx.monitor("c16:to_function")
            e = float(np.max(np.abs(got - y))) / mag
            ctx.track_worst("to_function_rel", e / max(1.0, ratio))
            if not e <= irel:
                ctx.violation("to_function_misses_samples", cid, {"err": e, "case": info})
                return
            if not np.all(np.isfinite(got_mid)):
                ctx.violation("to_function_not_finite", cid, {"case": info})
                return
            if meta["ycls"] != "affine":
                ctx.nontriv("c16", idx)
        elif mode in ("smooth", "smooth_zero"):
            gx, gy = wv.get()
            if not (isinstance(gy, np.ndarray) and np.array_equal(gx, x) and gy.shape == y.shape):
                ctx.violation("smooth_changed_x_or_length", cid, {"case": info})
                return
            res = float(np.sum((gy - y) ** 2))
            if mode == "smooth":
                ctx.monitor("c16:smooth_residual")
                ctx.track_worst("residual_over_s", res / s)
                if not res <= 1.0011 * s + 1e-9 * mag * mag * len(y):
                    ctx.violation("residual_exceeds_s", cid, {"residual": res, "s": s, "case": info},
                                  mechanism=fitpack_inconsistent(x, y, s, gy))
                    return
                if meta["ycls"] == "affine":
                    ctx.monitor("c16:affine")
                    if not float(np.max(np.abs(gy - y))) <= irel * mag:
                        ctx.violation("affine_data_changed", cid, {"err": float(np.max(np.abs(gy - y))), "case": info})
                        return
                elif res > 1e-12 * mag * mag:
                    ctx.nontriv("c16", idx)
            else:
                ctx.monitor("c16:smooth_zero")
                if not float(np.max(np.abs(gy - y))) <= irel * mag:
                    ctx.violation("smooth_zero_not_identity", cid, {"err": float(np.max(np.abs(gy - y))), "case": info})
                    return
                if meta["ycls"] != "affine":
                    ctx.nontriv("c16", idx)
        else:
            ctx.monitor("c16:default_s")
            with warnings.catch_warnings():
                warnings.simplefilter("ignore")
                want = BSpline(*splrep(x, y, s=len(y) * float(np.var(y))))(x)
            if not float(np.max(np.abs(got - want))) <= 1e-9 * mag:
                ctx.violation("default_s_differs_from_len_times_var", cid,
                              {"max_diff": float(np.max(np.abs(got - want))), "case": info})
                return
            if meta["ycls"] != "affine":
                ctx.nontriv("c16", idx)
    except Exception as e:
        ctx.judged()
        ctx.exception("raised_on_admissible_input", cid, e, {"case": info})
        return
    if idx % 1500 == 17:
        ctx.sample(info)


def run_long_case(ctx, kind_, idx):
    """a day of minute samples (1001..2500 points): two series that agree at both ends and differ in the middle (the
    same day with and without a noon event), fitted one after the other with the same s - by two objects, by the same
    object before and after the event is added, and by the function - each judged against ITS OWN samples"""
    from traffic_weaver import Weaver
    from traffic_weaver.process import spline_smooth
    rng = ctx.rng(kind_, idx)
    cid = ctx.case_id(kind_, idx)
    m = int(rng.integers(1001, 2501))
    if kind_ == "huge":
        # a month of minute samples / a day of second samples: beyond 2**15 and 2**16 points
        m = int(rng.integers(33000, 70001))
    step = float(rng.choice([60.0, 1.0, 0.25]))
    x = step * np.arange(m, dtype=float) + float(rng.choice([0.0, 1.7e9 if step >= 1 else 5.0]))
    u = np.linspace(0.0, 1.0, m)
    base = 10.0 + 5.0 * np.sin(2 * np.pi * u * float(rng.integers(1, 4))) + (1e-3 if kind_ == "huge" else 0.05) * rng.normal(0, 1, m)
    amp = float(rng.choice([6.0, -4.0, 1.5]))
    bump = np.where((u > 0.2) & (u < 0.8), amp * np.exp(-((u - 0.5) / 0.05) ** 2), 0.0)
    ya, yb = base, base + bump
    mode = ["to_function_two_objects", "to_function_same_object", "smooth_two_objects", "smooth_zero", "function"][int(rng.integers(0, 5))]
    s = float(10 ** rng.uniform(-1, 1.5))
    if kind_ == "huge":
        mode = ["smooth_two_objects", "smooth_zero", "to_function_two_objects"][idx % 3]
        s = float(10 ** rng.uniform(0.5, 2))       # well above the noise energy (m * 1e-6): the fit converges quickly
    info = {"m": m, "mode": mode, "s": s, "step": step, "x0": float(x[0]), "event_amplitude": amp}
    mag = float(np.max(np.abs(yb)))
    irel = 1e-9 + 100 * tol.cond_x(x)
    ctx.count("long:%s" % mode)
    try:
        with warnings.catch_warnings(record=True) as wlog:
            warnings.simplefilter("always")
            pairs = []                       # (fitted values, the samples they belong to, what)
            if mode == "to_function_two_objects":
                fa = Weaver(x.copy(), ya.copy()).to_function()
                fb = Weaver(x.copy(), yb.copy()).to_function()
                pairs = [(np.asarray(fa(x), float), ya, "first"), (np.asarray(fb(x), float), yb, "second")]
            elif mode == "to_function_same_object":
                wv = Weaver(x.copy(), ya.copy())
                f0 = wv.to_function()
                wv.trend(lambda t: float(np.interp(t, x, bump)))
                gx, gy = wv.get()
                f1 = wv.to_function()
                pairs = [(np.asarray(f0(x), float), ya, "before_event"),
                         (np.asarray(f1(np.asarray(gx, float)), float), np.asarray(gy, float), "after_event")]
            elif mode == "function":
                fa = spline_smooth(x.copy(), ya.copy(), 0)
                fb = spline_smooth(x.copy(), yb.copy(), 0)
                pairs = [(np.asarray(fa(x), float), ya, "first"), (np.asarray(fb(x), float), yb, "second")]
            elif mode == "smooth_zero":
                wa, wb = Weaver(x.copy(), ya.copy()), Weaver(x.copy(), yb.copy())
                wa.smooth(0)
                wb.smooth(0)
                pairs = [(np.asarray(wa.get()[1], float), ya, "first"), (np.asarray(wb.get()[1], float), yb, "second")]
            else:
                wa, wb = Weaver(x.copy(), ya.copy()), Weaver(x.copy(), yb.copy())
                wa.smooth(s)
                wb.smooth(s)
        if any(issubclass(w.category, RuntimeWarning) for w in wlog):
            ctx.discard("fitpack_warning")
            return
        ctx.judged()
        ctx.monitor("c16:long_series")
        if mode == "smooth_two_objects":
            for w, yy, what in ((wa, ya, "first"), (wb, yb, "second")):
                gx, gy = w.get()
                if not (isinstance(gy, np.ndarray) and np.array_equal(gx, x) and gy.shape == yy.shape):
                    ctx.violation("smooth_changed_x_or_length", cid, {"which": what, "case": info})
                    return
                res = float(np.sum((gy - yy) ** 2))
                ctx.track_worst("residual_over_s", res / s)
                if not res <= 1.0011 * s + 1e-9 * mag * mag * m:
                    ctx.violation("residual_exceeds_s", cid, {"which": what, "residual": res, "s": s, "case": info},
                                  mechanism=fitpack_inconsistent(x, yy, s, gy))
                    return
        else:
            for got, yy, what in pairs:
                e = float(np.max(np.abs(got - yy))) / mag if got.shape == yy.shape else float("inf")
                if not e <= irel:
                    ctx.violation("to_function_misses_samples" if "function" in mode else "smooth_zero_not_identity", cid,
                                  {"which": what, "err": e, "case": info})
                    return
        ctx.nontriv("c16long", idx)
    except Exception as e:
        ctx.judged()
        ctx.exception("raised_on_admissible_input", cid, e, {"case": info})
        return
    if idx % 20 == 3:
        ctx.sample(info)


SPECIAL_SIZES = [b + d for b in (2 ** 15, 2 ** 16, 40000, 50000, 60000, 70000, 80000) for d in (-1, 0, 1)]


def run_size_case(ctx, kind_, idx):
    """series whose length is a round number, one less and one more (block sizes and their off-by-one neighbours):
    smoothing keeps x and the length, stays within s, and s = 0 is the identity"""
    from traffic_weaver import Weaver
    rng = ctx.rng(kind_, idx)
    cid = ctx.case_id(kind_, idx)
    m = SPECIAL_SIZES[idx % len(SPECIAL_SIZES)]
    x = 0.5 * np.arange(m, dtype=float)
    u = np.linspace(0.0, 1.0, m)
    y = 10.0 + 5.0 * np.sin(2 * np.pi * u * 2) + 1e-3 * rng.normal(0, 1, m)
    s = float(10 ** rng.uniform(0.5, 2)) if (idx // len(SPECIAL_SIZES) + idx) % 2 else 0.0
    info = {"m": m, "s": s}
    try:
        with warnings.catch_warnings(record=True) as wlog:
            warnings.simplefilter("always")
            wv = Weaver(x.copy(), y.copy())
            wv.smooth(s)
            gx, gy = wv.get()
        if any(issubclass(w.category, RuntimeWarning) for w in wlog):
            ctx.discard("fitpack_warning")
            return
        ctx.judged()
        ctx.monitor("c16:special_sizes")
        if not (isinstance(gy, np.ndarray) and isinstance(gx, np.ndarray) and gx.shape == x.shape and gy.shape == y.shape
                and np.array_equal(gx, x)):
            ctx.violation("smooth_changed_x_or_length", cid, {"lengths": [len(gx), len(gy)], "case": info})
            return
        res = float(np.sum((gy - y) ** 2))
        if s == 0.0:
            if not float(np.max(np.abs(gy - y))) <= 1e-9 * 15.0:
                ctx.violation("smooth_zero_not_identity", cid, {"err": float(np.max(np.abs(gy - y))), "case": info})
                return
        elif not res <= 1.0011 * s + 1e-9 * 225.0 * m:
            ctx.violation("residual_exceeds_s", cid, {"residual": res, "s": s, "case": info},
                          mechanism=fitpack_inconsistent(x, y, s, gy))
            return
        ctx.nontriv("c16sizes", idx)
    except Exception as e:
        ctx.judged()
        ctx.exception("raised_on_admissible_input", cid, e, {"case": info})


def run(ctx, spec):
    if spec["kind"] == "sizes":
        for idx in range(spec["start"], spec["start"] + spec["count"]):
            run_size_case(ctx, spec["kind"], idx)
        return
    for idx in range(spec["start"], spec["start"] + spec["count"]):
        (run_long_case if spec["kind"] in ("long", "huge") else run_case)(ctx, spec["kind"], idx)


def replay(ctx, case):
    if case["kind"] == "sizes":
        return run_size_case(ctx, case["kind"], case["idx"])
    (run_long_case if case["kind"] in ("long", "huge") else run_case)(ctx, case["kind"], case["idx"])
