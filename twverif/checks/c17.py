"""C17 - array helpers, interval view and block averaging keep their contracts."""
import numpy as np

from .. import callform, gen, tol
from ..core import fp_watch
from ..models import helpers as H

PROPERTY = "C17"
LEVEL = "exploration"
LEVEL_TEXT = ("Post-condition monitor on every helper of sorted_array_utils (oversample / extend / append / integral rules / "
              "range sums), on the IntervalArray view ([i, j] reads and writes at flat index i*n+j, row layout with NaN "
              "padding, closed-interval view, full-interval count, oversample / extend methods) and on process.average, "
              "each against a 3-10 line definitional model, plus the round trip average(oversample(...)) == input. "
              "Sampled over lengths 1..50, n 1..16, all directions and explicit end values.")
LEVEL_NOTE = ("Original elements must reappear bit for bit; interpolated / extrapolated elements and sums at 1e-9 relative "
              "to the array's magnitude; NaN positions must match exactly.")
TECHNIQUE = "runtime post-condition monitor vs small definitional models for each helper, generated workloads"
RULE = ("case = helper x array of 1..50 elements (float / int / list; non-uniform) x n in 1..16 x direction x explicit or "
        "default end values x interval size dividing or not dividing the length. non-trivial: result differs from the "
        "input (n >= 2 or a proper extension / view); distinct by case index."
        " Also: object-level histories on one IntervalArray against a shadow list (views after writes, extensions, and writes through the array property / the wrapped ndarray / a second view), flags as numpy.bool_ / 0 / 1, documented defaults by omission."
        " Round-4 classes: counts / interval sizes as NumPy integer scalars of any width, infinite values as data of the block average, arrays of 1001..3000 elements, helper call forms."
        " Round-5 classes: NaN blocks in the averaged data, a negative zero / an infinite element in oversample_linspace, NumPy integer indices into the interval view, int32 columns for the integral rules."
        " Round-6 classes: IntervalArray.oversample(num, method) with user methods whose second parameter has another name, factors as narrow NumPy integers with n * num up to 256."
        " Round-8 classes: the wrapped array is a strided view (every other element, a table column, reversed): writes must reach it and reads follow it until an extension replaces the array."
        " Round-9 classes: huge sizes also between 2**15 and 2**16; see the interpreter dimension (python -OO).")
HELPERS = ["oversample_linspace", "oversample_piecewise_constant", "extend_linspace", "extend_constant",
           "append_one_sample", "integrals", "sum_over_indices", "interval_getset", "interval_2d", "interval_closed",
           "interval_methods", "interval_object_history", "average", "round_trip"]
REQUIRED_MONITORS = ["c17:" + h for h in HELPERS] + ["c17:user_oversample_method"]
ASSUMPTIONS = ["n >= 1; extension by n requires at least n+1 elements when the default mirror point is used"]
NSHARDS = 16


def plan(tier, seed):
    n = 64000 if tier == "quick" else 5000000
    return [{"kind": "random", "start": p * (n // NSHARDS), "count": n // NSHARDS} for p in range(NSHARDS)] + \
        [{"kind": "huge", "start": 7 * p, "count": 7} for p in range(2 if tier == "quick" else 8)]


HUGE = {"on": False}


def arr(rng, lo=1, hi=50, increasing=False):
    m = int(rng.integers(lo, hi + 1))
    t = int(rng.integers(0, 4))
    if HUGE["on"] and hi >= 40 and lo < hi:
        m = gen.huge_size(rng)       # a day of per-second values: beyond 2**16 elements
        t = 0 if t in (1, 3) else t
    if hi >= 40 and lo < hi and rng.integers(0, 1000) == 0:
        m = int(rng.integers(1001, 3001))       # beyond the sizes at which NumPy summarises, blocks or switches algorithm
        t = 0 if t in (1, 3) else t
    if t == 3 and m > 90:
        t = 2
    if increasing or t == 0:
        a = np.cumsum(rng.uniform(0.1, 3, m)) + rng.normal(0, 5)
    elif t == 1:
        a = rng.integers(-9, 10, m).astype(np.int64)
    elif t == 2:
        a = rng.normal(0, 1, m) * float(rng.choice([1, 1e6, 1e-6]))
    else:
        a = np.sort(rng.choice(np.arange(-30, 60), size=m, replace=False)).astype(float)
    return a


def H_lin(values, k):
    return np.asarray(H.oversample_linspace([float(v) for v in values], int(k)), dtype=float)


def np_repeat_like(a, repeats):
    """a user method with NumPy's own parameter name for the factor"""
    a = np.asarray(a, dtype=float)
    return np.repeat(a, repeats)[: (len(a) - 1) * repeats + 1]


def same(got, want, mag, nan_ok=True):
    got = np.asarray(got, dtype=float)
    want = np.asarray(want, dtype=float)
    if got.shape != want.shape:
        return False
    if not np.array_equal(np.isnan(got), np.isnan(want)):
        return False
    g, w = np.nan_to_num(got), np.nan_to_num(want)
    return bool(np.all(np.abs(g - w) <= 1e-9 * max(mag, 1e-300)))


def run_case(ctx, kind_, idx):
    import traffic_weaver.sorted_array_utils as U
    from traffic_weaver.interval import IntervalArray
    from traffic_weaver.process import average
    rng = ctx.rng(kind_, idx)
    cid = ctx.case_id(kind_, idx)
    h = HELPERS[int(rng.integers(0, len(HELPERS)))]
    HUGE["on"] = kind_ == "huge"
    if kind_ == "huge":
        h = ["oversample_linspace", "oversample_piecewise_constant", "extend_linspace", "extend_constant", "integrals",
             "sum_over_indices", "average", "interval_2d", "interval_methods", "append_one_sample", "round_trip",
             "interval_closed", "interval_getset", "average"][idx % 14]
    info = {"helper": h}
    ctx.monitor("c17:" + h)
    ctx.judged()

    def fail(clause, **d):
        ctx.violation(h + ":" + clause, cid, dict(info, **d))
    try:
        with fp_watch(ctx):
            if h in ("oversample_linspace", "oversample_piecewise_constant"):
                a = arr(rng)
                n = int(rng.integers(1, 17))
                if rng.integers(0, 12) == 0 and len(a) >= 2:
                    # "keeps every original element": also a negative zero (bit for bit) and an element next to an
                    # infinite one (start + 0 * step is not the start when step is infinite)
                    a = np.asarray(a, dtype=float).copy()
                    if rng.integers(0, 2):
                        a[int(rng.integers(0, len(a)))] = -0.0
                        info["negative_zero"] = True
                    else:
                        a[int(rng.integers(0, len(a)))] = [np.inf, -np.inf][int(rng.integers(0, 2))]
                        info["infinite_element"] = True
                ain = a if rng.integers(0, 2) else (np.array(a) if h == "oversample_piecewise_constant" else a)
                n_arg, nt = gen.count_arg(rng, n)
                info.update({"a": a if len(a) <= 10 else len(a), "n": n, "n_type": nt})
                got = callform.call(rng, getattr(U, h), "sau." + h, [ain, n_arg])
                want = getattr(H, h)([float(v) for v in a], n)
                mag = float(np.max(np.abs(a)))
                if len(got) != (len(a) if n < 2 else (len(a) - 1) * n + 1):
                    return fail("length", got=len(got))
                if n >= 2 and not np.array_equal(np.asarray(got, float)[::n], np.asarray(a, float)):
                    return fail("nth_element_not_original", got=got)
                if n >= 2 and not np.array_equal(np.signbit(np.asarray(got, float)[::n]), np.signbit(np.asarray(a, float))):
                    return fail("nth_element_not_original_sign_of_zero", got=got)
                if info.get("infinite_element"):
                    ctx.nontriv("c17", idx)
                    return          # the fill values between a finite and an infinite element are not specified
                if h == "oversample_piecewise_constant":
                    if not np.array_equal(np.asarray(got, float), np.asarray(want, float)):
                        return fail("fill_not_left_value", got=got)
                elif not same(got, want, mag):
                    return fail("fill_not_linear", got=got, want=want)
                if n >= 2 and len(a) >= 2:
                    ctx.nontriv("c17", idx)
            elif h in ("extend_linspace", "extend_constant"):
                a = arr(rng, 2, 50)
                direction = ["both", "left", "right"][int(rng.integers(0, 3))]
                explicit = h == "extend_linspace" and bool(rng.integers(0, 2))
                n = int(rng.integers(1, 17 if explicit or h == "extend_constant" else min(16, len(a) - 1) + 1))
                kw = {}
                if explicit:
                    if direction in ("both", "left"):
                        kw["lstart"] = float(a[0]) - float(rng.uniform(0.5, 5))
                    if direction in ("both", "right"):
                        kw["rstop"] = float(a[-1]) + float(rng.uniform(0.5, 5))
                    if direction == "both" and rng.integers(0, 2):      # one side explicit, other default
                        if n <= len(a) - 1:
                            kw.pop("lstart" if rng.integers(0, 2) else "rstop")
                n_arg, nt = gen.count_arg(rng, n)
                info.update({"a": a if len(a) <= 10 else len(a), "n": n, "n_type": nt, "direction": direction, "kw": kw})
                if direction == "both" and not kw and rng.integers(0, 2):
                    got = getattr(U, h)(a, n_arg)                                   # documented default: both sides
                else:
                    got = callform.call(rng, getattr(U, h), "sau." + h, [a, n_arg], dict(kw, direction=direction),
                                        p_pos=0.4)
                want = getattr(H, h)([float(v) for v in a], n, direction, **kw)
                nl = n if direction in ("both", "left") else 0
                nr = n if direction in ("both", "right") else 0
                if len(got) != len(a) + nl + nr:
                    return fail("length", got=len(got), want=len(a) + nl + nr)
                if not np.array_equal(np.asarray(got, float)[nl:nl + len(a)], np.asarray(a, float)):
                    return fail("original_elements_moved", got=got)
                mag = float(np.max(np.abs(want)))
                if not same(got, want, mag):
                    return fail("extension_values", got=got, want=want)
                ctx.nontriv("c17", idx)
            elif h == "append_one_sample":
                x = arr(rng, 2, 50, increasing=True)
                y = arr(rng, len(x), len(x))
                per = bool(rng.integers(0, 2))
                # the flag is a truth value: numpy booleans (results of comparisons) and 0 / 1 are what callers pass
                per_arg = [per, np.bool_(per), int(per)][int(rng.integers(0, 3))]
                xin, _k = gen.as_container(rng, x, allow=("array", "list", "int"))
                info.update({"x": x if len(x) <= 10 else len(x), "periodic": per})
                if not per and rng.integers(0, 2):
                    gx, gy = U.append_one_sample(xin, list(y) if rng.integers(0, 2) else y)      # documented default
                else:
                    gx, gy = U.append_one_sample(xin, list(y) if rng.integers(0, 2) else y, make_periodic=per_arg)
                wx, wy = H.append_one_sample([float(v) for v in x], [float(v) for v in y], per)
                if not (isinstance(gx, np.ndarray) and isinstance(gy, np.ndarray)):
                    return fail("not_arrays")
                if not (np.array_equal(gx[:-1], np.asarray(x, float)) and np.array_equal(gy, np.asarray(wy, float))):
                    return fail("values", got=[gx, gy])
                if not abs(float(gx[-1]) - wx[-1]) <= 1e-9 * max(abs(wx[-1]), abs(float(x[-1]))):
                    return fail("new_abscissa", got=float(gx[-1]), want=wx[-1])
                ctx.nontriv("c17", idx)
            elif h == "integrals":
                x = arr(rng, 2, 50, increasing=True)
                y = arr(rng, len(x), len(x))
                yf = np.asarray(y, dtype=float)
                xin, yin = x, yf
                if rng.integers(0, 6) == 0:
                    # 32-bit integer columns: seconds and counters whose products (value x step) and neighbour sums do
                    # not fit 32 bits although every value does
                    x = (1_700_000_000 + np.cumsum(rng.choice([60, 300, 900, 3600], len(x)))).astype(float)
                    yf = rng.integers(10 ** 6, 2 ** 31 - 1, len(x)).astype(float)
                    xin, yin = x.astype(np.int32), yf.astype(np.int32)
                    info["int32_columns"] = True
                info.update({"x": x if len(x) <= 10 else len(x), "y": y if len(y) <= 10 else None})
                mag = float(np.max(np.abs(yf))) * float(np.max(np.diff(x)))
                r = U.rectangle_integral(xin, yin)
                t = U.trapezoid_integral(xin, yin)
                xl, yl = [float(v) for v in x], [float(v) for v in yf]
                if not same(r, H.rectangle(xl, yl), mag):
                    return fail("rectangle", got=r)
                if not same(t, H.trapezoid(xl, yl), mag):
                    return fail("trapezoid", got=t)
                if not (np.array_equal(U.integral(xin, yin, "rectangle"), r) and np.array_equal(U.integral(xin, yin, "trapezoid"), t)
                        and np.array_equal(U.integral(xin, yin), t)):
                    return fail("dispatcher")
                ctx.nontriv("c17", idx)
            elif h == "sum_over_indices":
                a = arr(rng, 1, 50)
                k = int(rng.integers(1, min(len(a), 8) + 2))
                idxs = sorted(int(v) for v in rng.integers(0, len(a) + 1, k))
                info.update({"a": a if len(a) <= 10 else len(a), "indices": idxs})
                got = U.sum_over_indices(a if rng.integers(0, 2) else list(a), idxs if rng.integers(0, 2) else np.array(idxs))
                want = H.sum_over_indices([float(v) for v in a], idxs)
                if not same(got, want, float(np.sum(np.abs(a)))):
                    return fail("range_sums", got=got, want=want)
                if k >= 2:
                    ctx.nontriv("c17", idx)
            elif h == "interval_getset":
                a = arr(rng, 1, 50).astype(float)
                n = int(rng.integers(1, 17))
                ia = IntervalArray(a.copy(), n)
                if rng.integers(0, 8) == 0:
                    flat_view = IntervalArray(a.copy())          # documented default: interval size 1 = plain array
                    q = int(rng.integers(0, len(a)))
                    if float(flat_view[q, 0]) != float(a[q]) or flat_view.nr_of_full_intervals() != len(a) or \
                            flat_view.to_2d_array().shape != (len(a), 1):
                        return fail("default_interval_size_is_not_one")
                flat = int(rng.integers(0, len(a)))
                i, j = divmod(flat, n)
                T = lambda v: gen.index_arg(rng, v)         # noqa: E731 - indices as Python ints or NumPy integer scalars
                info.update({"len": len(a), "n": n, "i": i, "j": j})
                if float(ia[T(i), T(j)]) != float(a[flat]) or float(ia[T(flat)]) != float(a[flat]):
                    return fail("read", got=float(ia[i, j]), want=float(a[flat]))
                # out-of-interval element offsets reach into neighbouring intervals (used by the strategies)
                if flat - n >= 0 and float(ia[T(i), T(j - n)]) != float(a[flat - n]):
                    return fail("read_negative_offset")
                d = int(rng.integers(-1, 2))          # the same element addressed from a neighbouring interval
                i2, j2 = i - d, j + d * n
                if i2 < 0:
                    i2, j2 = i, j
                info.update({"i_write": i2, "j_write": j2})
                if float(ia[T(i2), T(j2)]) != float(a[flat]):
                    return fail("read_offset_form", got=float(ia[i2, j2]), want=float(a[flat]))
                ia[T(i2), T(j2)] = 12345.5
                b = a.copy()
                b[flat] = 12345.5
                if not np.array_equal(ia.array, b):
                    return fail("write", got=ia.array, want=b)
                flat2 = int(rng.integers(0, len(a)))
                ia[T(flat2)] = -7.25
                b[flat2] = -7.25
                if not np.array_equal(ia.array, b) or len(ia) != len(a) or ia.nr_of_full_intervals() != len(a) // n:
                    return fail("flat_write_or_len")
                if list(iter(ia)) != list(b):
                    return fail("iteration")
                ctx.nontriv("c17", idx)
            elif h in ("interval_2d", "interval_closed"):
                a = arr(rng, 1, 50)
                n = int(rng.integers(1, 17))
                n_arg, nt = gen.count_arg(rng, n)
                info.update({"a": a if len(a) <= 10 else len(a), "n": n, "n_type": nt})
                ia = callform.call(rng, IntervalArray, "IntervalArray", [a if rng.integers(0, 2) else list(a)], {"n": n_arg},
                                   p_pos=0.5)
                if h == "interval_2d":
                    got = ia.to_2d_array()
                    want = np.array(H.rows(a, n), dtype=float)
                else:
                    dl = bool(rng.integers(0, 2))
                    info["drop_last"] = dl
                    got = ia.to_2d_array_closed_intervals(drop_last=dl)
                    w = H.closed_rows(a, n, dl)
                    want = np.array(w, dtype=float).reshape(len(w), n + 1)
                if got.shape != want.shape or not np.array_equal(got, want, equal_nan=True):
                    return fail("layout", got=got, want=want)
                ctx.nontriv("c17", idx)
            elif h == "interval_methods":
                a = arr(rng, 2, 40).astype(float)
                n = int(rng.integers(1, 17))
                num = int(rng.integers(1, 17))         # n * num reaches 256: beyond int8 and uint8
                ia = IntervalArray(a.copy(), n)
                num_arg, numt = gen.count_arg(rng, num)          # the factor as Python int or NumPy integer scalar
                o1 = ia.oversample_linspace(num_arg)
                o2 = ia.oversample_piecewise(num_arg)
                mag = float(np.max(np.abs(a)))
                info.update({"len": len(a), "n": n, "num": num, "num_type": numt})
                exp_n = n * num
                if o1.n != exp_n or o2.n != exp_n:
                    return fail("oversample_interval_size", got=[o1.n, o2.n], want=exp_n)
                # the public hook: oversample(num, method) with a user method "Callable[[array, int], ndarray]" - the
                # second parameter is positional, whatever the user named it
                if num >= 2:
                    um = [lambda values, factor: np.repeat(np.asarray(values, dtype=float), factor)[: (len(values) - 1) * factor + 1],
                          lambda arr_, k: H_lin(arr_, k), np_repeat_like][int(rng.integers(0, 3))]
                    o3 = ia.oversample(num, um)
                    ctx.monitor("c17:user_oversample_method")
                    if o3.n != exp_n or len(o3.array) != (len(a) - 1) * num + 1 or \
                            not np.array_equal(np.asarray(o3.array, float)[::num], a):
                        return fail("user_oversample_method", got=[o3.n, len(o3.array)])
                if not same(o1.array, H.oversample_linspace(list(a), num), mag) or \
                        not np.array_equal(np.asarray(o2.array, float), np.asarray(H.oversample_piecewise_constant(list(a), num), float)):
                    return fail("oversample_values")
                if len(a) >= n + 1:
                    d = ["both", "left", "right"][int(rng.integers(0, 3))]
                    e1 = IntervalArray(a.copy(), n)
                    e1.extend_linspace(direction=d)
                    e2 = IntervalArray(a.copy(), n)
                    e2.extend_constant(direction=d)
                    if not same(e1.array, H.extend_linspace(list(a), n, d), mag * 3) or \
                            not np.array_equal(np.asarray(e2.array, float), np.asarray(H.extend_constant(list(a), n, d), float)):
                        return fail("extend_by_one_interval", direction=d)
                ctx.nontriv("c17", idx)
            elif h == "interval_object_history":
                # several operations on ONE object against a shadow list: a view computed earlier must never be served
                # again after a write / extension (stale caches), writes must be visible in every later view
                a = arr(rng, 2, 40).astype(float)
                n = int(rng.integers(1, 9))
                src = a.copy()
                layout = ["contiguous", "every_other", "table_column", "reversed"][int(rng.integers(0, 4))]
                if layout == "every_other":         # the array the caller wraps is a view of the caller's own data
                    src = np.zeros(2 * len(a))[::2]
                elif layout == "table_column":
                    src = np.zeros((len(a), 3))[:, 1]
                elif layout == "reversed":
                    src = np.zeros(len(a))[::-1]
                src[:] = a
                ia = IntervalArray(src, n)            # wraps without copying: the caller keeps write access
                extended = False                      # extensions build a new, longer array (by design)
                sh = [float(v) for v in a]
                steps = []
                info.update({"len": len(a), "n": n, "steps": steps, "wrapped_array_layout": layout})
                ctx.count("interval_history:wrapped_%s" % layout)
                for _ in range(int(rng.integers(3, 9))):
                    op = ["view", "closed", "write", "write_flat", "extend_lin", "extend_const", "read", "len",
                          "write_via_array_property", "write_via_wrapped_ndarray", "write_via_second_view"][int(rng.integers(0, 11))]
                    steps.append(op)
                    mag = max(abs(v) for v in sh) + 1.0
                    if op == "view":
                        if not same(ia.to_2d_array(), np.array(H.rows(sh, n), dtype=float), mag):
                            return fail("view_after_history")
                    elif op == "closed":
                        dl = bool(rng.integers(0, 2))
                        w = H.closed_rows(sh, n, dl)
                        if not same(ia.to_2d_array_closed_intervals(drop_last=dl), np.array(w, dtype=float).reshape(len(w), n + 1), mag):
                            return fail("closed_view_after_history")
                    elif op == "write":
                        flat = int(rng.integers(0, len(sh)))
                        i, j = divmod(flat, n)
                        v = float(rng.normal(0, 5))
                        ia[i, j] = v
                        sh[flat] = v
                        if not extended and float(src[flat]) != v:
                            return fail("write_did_not_reach_the_wrapped_array", flat=flat, layout=layout)
                    elif op == "write_flat":
                        flat = int(rng.integers(0, len(sh)))
                        v = float(rng.normal(0, 5))
                        ia[flat] = v
                        sh[flat] = v
                        if not extended and float(src[flat]) != v:
                            return fail("write_did_not_reach_the_wrapped_array", flat=flat, layout=layout)
                    elif op.startswith("write_via"):
                        flat = int(rng.integers(0, len(sh)))
                        v = float(rng.normal(0, 5))
                        if op == "write_via_array_property":
                            ia.array[flat] = v
                        elif op == "write_via_wrapped_ndarray":
                            if extended:
                                continue
                            src[flat] = v
                        else:
                            IntervalArray(ia.array, max(1, n - 1))[flat] = v
                        sh[flat] = v
                    elif op in ("extend_lin", "extend_const"):
                        if len(sh) < n + 1 or len(sh) > 200:
                            continue
                        d = ["both", "left", "right"][int(rng.integers(0, 3))]
                        extended = True
                        if op == "extend_lin":
                            ia.extend_linspace(direction=d)
                            sh = H.extend_linspace(sh, n, d)
                        else:
                            ia.extend_constant(direction=d)
                            sh = H.extend_constant(sh, n, d)
                    elif op == "read":
                        flat = int(rng.integers(0, len(sh)))
                        i, j = divmod(flat, n)
                        if not abs(float(ia[i, j]) - sh[flat]) <= 1e-9 * mag:
                            return fail("read_after_history", flat=flat)
                    else:
                        if len(ia) != len(sh) or ia.nr_of_full_intervals() != len(sh) // n:
                            return fail("len_after_history")
                    if not same(ia.array, sh, mag):
                        return fail("array_after_history", step=op)
                ctx.nontriv("c17", idx)
            elif h == "average":
                m = int(rng.integers(1, 50)) if not HUGE["on"] else gen.huge_size(rng)
                x = np.cumsum(rng.uniform(0.1, 2, m))
                y = arr(rng, m, m)
                n = int(rng.integers(1, 17))
                n_arg, nt = gen.count_arg(rng, n)
                info.update({"len": m, "n": n, "n_type": nt})
                if rng.integers(0, 8) == 0:
                    # saturated / overflowed measurements: infinities are data, only the NaN padding is ignored
                    y = np.asarray(y, dtype=float).copy()
                    for q in rng.integers(0, m, int(rng.integers(1, 4))):
                        y[int(q)] = [np.inf, -np.inf][int(rng.integers(0, 2))]
                    info["infinite_values"] = True
                    ctx.count("average:infinite_values")
                elif rng.integers(0, 8) == 0 and m > n:
                    # a gap in the measurements covering whole blocks: a block without any sample has no mean (NaN),
                    # it does not average to a number
                    y = np.asarray(y, dtype=float).copy()
                    b = int(rng.integers(0, (m + n - 1) // n))
                    y[b * n:(b + 1) * n] = np.nan
                    info["missing_block"] = b
                    ctx.count("average:missing_block")
                gx, gy = callform.call(rng, average, "process.average",
                                       [x if rng.integers(0, 2) else list(x), y if rng.integers(0, 2) else list(y), n_arg])
                wx, wy = H.average(list(x), [float(v) for v in y], n)
                if not np.array_equal(np.asarray(gx, float), np.asarray(wx, float)):
                    return fail("abscissae", got=gx, want=wx)
                fin = np.asarray(y, dtype=float)[np.isfinite(np.asarray(y, dtype=float))]
                if not same(gy, wy, float(np.max(np.abs(fin))) if len(fin) else 1.0):
                    return fail("row_means", got=gy, want=wy)
                ctx.nontriv("c17", idx)
            else:  # round trip
                m = int(rng.integers(2, 40)) if not HUGE["on"] else int(rng.integers(20000, 30001))
                x = np.cumsum(rng.uniform(0.1, 2, m)) + rng.normal(0, 10)
                y = rng.normal(0, 3, m)
                n = int(rng.integers(2, 17))
                n_arg, nt = gen.count_arg(rng, n)
                info.update({"len": m, "n": n, "n_type": nt})
                gx, gy = average(U.oversample_linspace(x, n_arg), U.oversample_piecewise_constant(y, n_arg), n_arg)
                if not (np.array_equal(gx, x) and same(gy, y, float(np.max(np.abs(y))))):
                    return fail("average_of_oversampling_is_not_input", got=[gx, gy])
                ctx.nontriv("c17", idx)
    except Exception as e:
        ctx.exception(h + ":raised", cid, e, {"case": info})
        return
    if idx % 6000 == 18:
        ctx.sample(info)


def run(ctx, spec):
    for idx in range(spec["start"], spec["start"] + spec["count"]):
        run_case(ctx, spec["kind"], idx)


def replay(ctx, case):
    run_case(ctx, case["kind"], case["idx"])
