"""C07 - recreation commutes with changes of units and acts locally."""
import numpy as np

from . import _jobs
from . import _rfa as R
from .. import gen, tol
from ..core import fp_watch

PROPERTY = "C07"
LEVEL = "exploration"
LEVEL_TEXT = ("Metamorphic pair monitor over families of runs of the same real strategy: value maps y -> a*y+b and "
              "time maps x -> c*x+d must commute with recreation; perturbing one average may change samples only "
              "within the documented neighbourhood (bit-for-bit outside); for the non-adaptive strategies the weight "
              "matrix recovered from unit vectors must have unit row sums, non-negative entries (cubic exempt), the "
              "locality band, and reproduce S(x, y) = W y. Sampled.")
LEVEL_NOTE = ("Equalities judged at 1e-9 relative to |a|*max|y|+|b| (conditioning-aware, x100 for the global cubic "
              "spline); adaptive strategies are driven with exactly representable maps only (power-of-two scales, "
              "integer shifts of integer-valued series), as the property's quantifier prescribes.")
TECHNIQUE = "metamorphic runtime monitor (pairs / families of executions of the real strategies compared against each other); thread-isolation monitor (concurrent vs sequential answers, first-use rounds with sys.monitoring yield injection)"
RULE = ("family = strategy x series (2..30 points) x n x parameters, with one of: value map (generic reals, or exact "
        "maps for adaptive strategies, negative scales included), time map (generic c>0, d), single-average "
        "perturbation at a random position, unit-vector weight matrix (non-adaptive, m<=12). non-trivial: "
        "non-constant series and a map different from the identity; distinct by case index."
        " Also: changes of unit by 2**+-(20..60) (exact) and 10**+-12 (generic), float32 / float16 averages, a second object of the same class in between."
        " Round-4 classes: power-of-two scales up to the edge of the float range (2**-900 .. 2**+900, as far as every value and jump stays normal)."
        " Round-6 classes: RuntimeWarnings on the first (ordinary) request are violations (see C04)."
        " Round-7 classes: as C05."
        " Round-8 classes: a 'threads' kind as in C05 (independent requests, ONE strategy object shared by the threads, first use of the library from several threads at once)."
        " Round-9 classes: as C05 (parameter sweeps on one series).")
REQUIRED_MONITORS = ["threads:rfa", "threads:first_use:rfa", "c07:value_map", "c07:time_map", "c07:locality", "c07:weights"]
ASSUMPTIONS = ["strategy parameters in the documented ranges; x strictly increasing"]
NSHARDS = 16
NONADAPTIVE = ["LinearFixedRFA", "ExpFixedRFA", "PiecewiseConstantRFA", "CubicSplineRFA"]


def plan(tier, seed):
    n = 8000 if tier == "quick" else 400000
    return [{"kind": "family", "start": p * (n // NSHARDS), "count": n // NSHARDS} for p in range(NSHARDS)] + \
        _jobs.plan(tier, shards=1)


def run_case(ctx, kind_, idx):
    rng = ctx.rng(kind_, idx)
    cid = ctx.case_id(kind_, idx)
    strat = R.ALL[int(rng.integers(0, 6))]
    adaptive = "Adaptive" in strat
    which = ["value_map", "time_map", "locality", "weights"][int(rng.integers(0, 4))]
    if which == "weights" and adaptive:
        strat = NONADAPTIVE[int(rng.integers(0, 4))]
        adaptive = False
    n = int(rng.choice([2, 3, 4, 5, 8, 16, int(rng.integers(2, 33))]))
    kw, a_tot = R.gen_params(rng, strat, n)
    m_hi = 12 if which == "weights" else 30
    x, y, meta = R.gen_series(rng, 2, m_hi, ties_share=0.3)
    if adaptive and which == "value_map":
        y = rng.integers(-6, 7, len(y)).astype(float)
        meta["ycls"] = "int"
    if which != "weights":
        x, y_arg, y = R.narrow_series(rng, x, y, meta)      # e.g. a float32 column: same values, narrower container
    else:
        y_arg = y
    info = R.brief(strat, x, y, n, kw, meta)
    info["relation"] = which
    ctx.count("relation:%s" % which)
    ctx.count("strategy:%s" % strat)
    loose = 100.0 if strat == "CubicSplineRFA" else 1.0
    try:
        with fp_watch(ctx):
            with fp_watch(ctx) as fpw:
                xs, ys = R.run(strat, x, y_arg, n, kw, rng=rng)
            if fpw.tripped:
                # a caller running with warnings as errors / numpy.seterr(all="raise") would have got no series at all
                ctx.judged()
                ctx.violation("floating_point_warning_on_ordinary_input", cid, {"warnings": fpw.tripped[:4], "case": info})
                return
            if R.well_formed(xs, ys, len(x), n):
                ctx.judged()
                ctx.violation("malformed_output", cid, {"problem": R.well_formed(xs, ys, len(x), n), "case": info})
                return
            if which == "value_map":
                if adaptive:
                    # exactly representable maps; the exponent range includes changes of unit by many orders of
                    # magnitude (bit/s <-> Tbit/s), where absolute thresholds hidden in the code would show
                    # ... and up to the edge of the floating-point range (products of two jumps under- or overflow
                    # long before the values themselves do), as far as every value and every jump stays normal
                    ya = np.abs(np.asarray(y, dtype=float))
                    jumps = np.abs(np.diff(np.asarray(y, dtype=float)))
                    pos = np.concatenate([ya[ya > 0], jumps[jumps > 0]])
                    k_lo = int(min(-61, np.ceil(-960 - np.log2(float(np.min(pos)))))) if len(pos) else -61
                    k_hi = int(max(61, np.floor(960 - np.log2(float(np.max(pos)) + 1.0)))) if len(pos) else 61
                    a = float(rng.choice([-1, 1])) * 2.0 ** int(rng.choice([int(rng.integers(-3, 5)), int(rng.integers(-60, -20)),
                                                                              int(rng.integers(20, 60)),
                                                                              int(rng.integers(k_lo, -60)),
                                                                              int(rng.integers(60, k_hi + 1))]))
                    # a*y + b must stay exactly representable: integer shifts only next to moderate scales
                    b = float(rng.integers(-8, 9)) if 2.0 ** -3 <= abs(a) <= 2.0 ** 5 else 0.0
                else:
                    a = float(rng.normal(0, 3)) if rng.integers(0, 3) else \
                        float(rng.choice([-1, 1])) * 10.0 ** float(rng.uniform(-12, 12))
                    a = a if abs(a) > 1e-3 or abs(a) < 1e-6 else 1.5
                    b = float(rng.normal(0, 5)) * (float(np.max(np.abs(y))) or 1.0) * min(abs(a), 1.0)
                info["map"] = [a, b]
                xs2, ys2 = R.run(strat, x, a * y + b, n, kw)
                ctx.judged()
                ctx.monitor("c07:value_map")
                sc = abs(a) * float(np.max(np.abs(y))) + abs(b)
                e = tol.maxerr(ys2, a * ys + b, sc)
                ctx.track_worst("value_map_rel", e)
                if not e <= loose * tol.rel_for(x) or not np.array_equal(xs2, xs):
                    i = int(np.argmax(np.abs(ys2 - (a * ys + b))))
                    ctx.violation("value_map_does_not_commute", cid, {"a": a, "b": b, "sample": i, "got": ys2[i],
                                                                      "want": a * ys[i] + b, "case": info})
                    return
                if meta["ycls"] != "constant":
                    ctx.nontriv("c07", idx)
            elif which == "time_map":
                c = float(rng.choice([2.0, 0.5, 3600.0, float(rng.lognormal(0, 2))]))
                d = float(rng.choice([0.0, 1.0, float(rng.normal(0, 100))]))
                info["map"] = [c, d]
                x2 = c * x + d
                xs2, ys2 = R.run(strat, x2, y, n, kw)
                ctx.judged()
                ctx.monitor("c07:time_map")
                rel = loose * (tol.rel_for(x) + tol.rel_for(x2))
                sc = float(np.max(np.abs(y)))
                e = tol.maxerr(ys2, ys, sc)
                ctx.track_worst("time_map_rel", e / max(rel / 1e-9, 1))
                if not e <= rel:
                    i = int(np.argmax(np.abs(ys2 - ys)))
                    ctx.violation("time_map_changes_values", cid, {"c": c, "d": d, "sample": i, "got": ys2[i],
                                                                   "want": ys[i], "case": info})
                    return
                ex = tol.maxerr(xs2, c * xs + d, abs(c) * float(np.max(np.abs(xs))) + abs(d))
                if ex > 1e-9:
                    ctx.violation("time_map_abscissae", cid, {"c": c, "d": d, "err": ex, "case": info})
                    return
                if meta["ycls"] != "constant":
                    ctx.nontriv("c07", idx)
            elif which == "locality":
                m = len(y)
                j = int(rng.integers(0, m))
                delta = float(rng.choice([1.0, -0.5, float(rng.normal(0, 2))])) * (float(np.max(np.abs(y))) or 1.0)
                if delta == 0:
                    delta = 1.0
                y2 = y.copy()
                y2[j] += delta
                info["perturbed"] = [j, delta]
                xs2, ys2 = R.run(strat, x, y2, n, kw)
                ctx.judged()
                ctx.monitor("c07:locality")
                if strat != "CubicSplineRFA":
                    r = 2 if adaptive else 1
                    lo, hi = max(0, (j - r) * n), min(len(ys), (j + r + 1) * n)
                    changed = np.nonzero(ys2 != ys)[0]
                    out = [int(i) for i in changed if i < lo or i >= hi]
                    if out:
                        ctx.violation("non_local_effect", cid, {"perturbed_average": j, "radius": r,
                                                                "changed_outside": out[:10],
                                                                "allowed_range": [lo, hi], "case": info})
                        return
                    if len(changed) == 0 and j < m - 1:
                        ctx.violation("perturbation_had_no_effect", cid, {"perturbed_average": j, "case": info})
                        return
                ctx.nontriv("c07", idx)
            else:  # weights
                m = len(y)
                W = np.empty((len(ys), m))
                for j in range(m):
                    e_j = np.zeros(m)
                    e_j[j] = 1.0
                    _xs, col = R.run(strat, x, e_j, n, kw)
                    W[:, j] = col
                ctx.judged()
                ctx.monitor("c07:weights")
                rel = loose * tol.rel_for(x)
                rs = W.sum(axis=1)
                if not np.max(np.abs(rs - 1.0)) <= rel * m:
                    i = int(np.argmax(np.abs(rs - 1.0)))
                    ctx.violation("weights_do_not_sum_to_one", cid, {"sample": i, "row_sum": rs[i], "case": info})
                    return
                if strat != "CubicSplineRFA":
                    if np.min(W) < -rel:
                        i, j = np.unravel_index(int(np.argmin(W)), W.shape)
                        ctx.violation("negative_weight", cid, {"sample": int(i), "average": int(j),
                                                               "weight": W[i, j], "case": info})
                        return
                    for i in range(len(ys)):
                        k = min(i // n, m - 2) if i < len(ys) - 1 else m - 2
                        for j in range(m):
                            near = abs(j - k) <= 1 or (i == len(ys) - 1 and j >= m - 2)
                            if not near and W[i, j] != 0.0:
                                ctx.violation("weight_outside_band", cid, {"sample": i, "interval": k, "average": j,
                                                                           "weight": W[i, j], "case": info})
                                return
                sc = float(np.sum(np.abs(W) @ np.abs(y).reshape(-1, 1))) / len(ys) + float(np.max(np.abs(y)))
                e = tol.maxerr(W @ y, ys, sc)
                ctx.track_worst("linearity_rel", e)
                if not e <= rel * m:
                    ctx.violation("not_linear_in_values", cid, {"err": e, "case": info})
                    return
                ctx.nontriv("c07", idx)
    except Exception as ex:
        ctx.judged()
        ctx.exception("raised_on_admissible_input", cid, ex, {"case": info})
        return
    if idx % 1500 == 2:
        ctx.sample(info)


def run(ctx, spec):
    if spec["kind"] in ("threads", "threads_cold"):      # the answers must not depend on who else is asking
        return _jobs.run(ctx, spec, ["rfa"])
    for idx in range(spec["start"], spec["start"] + spec["count"]):
        run_case(ctx, spec["kind"], idx)


def replay(ctx, case):
    if case["kind"] in ("threads", "threads_cold"):
        return _jobs.run_case(ctx, ["rfa"], case["idx"], cold=case["kind"] == "threads_cold")
    run_case(ctx, case["kind"], case["idx"])
