"""C05 - window strategies never overshoot and keep a plateau at the average."""
import numpy as np

from . import _rfa as R
from .. import tol
from ..core import fp_watch
from ..models import rfa_model as RM

from . import _jobs  # noqa: E402

PROPERTY = "C05"
LEVEL = "exploration"
LEVEL_TEXT = ("Shape predicates evaluated on the output of every real window-strategy run: per interval the samples "
              "different from the average form a prefix and a suffix around one contiguous plateau, at most a-1 "
              "differ, prefix / suffix values stay inside the hull of the interval's and the neighbouring average, and "
              "run monotonically between border value and plateau; last sample inside the hull of the last two "
              "originals; piecewise-constant = exact repetition; cubic spline interpolates the originals; constant "
              "in -> constant out for all six strategies. Sampled over ties, explicit a, beta, exponent, smoothing.")
LEVEL_NOTE = ("Equality with the average judged at 1e-9 of the local magnitude; the window size a is recomputed from "
              "the documented rule (alpha drawn so that alpha*n is not within rounding of an integer). Known finding "
              "K1 (documented blend non-monotone for exponent < 0.132954) is matched by mechanism: exponential "
              "strategy, exponent below the bound, offending samples in a blended segment, output equal to the "
              "documentation model there.")
TECHNIQUE = "runtime shape-predicate monitor on real strategy outputs (hull, plateau, count, monotone runs) under generated workloads; thread-isolation monitor (concurrent vs sequential answers, first-use rounds with sys.monitoring yield injection)"
RULE = ("case = one of 6 strategies x series of 2..60 points (>= 40% tie-rich integer / plateau / constant series) x "
        "x class x n in 2..64 x alpha in (0,1] or explicit a in 0..n x beta in {0,1,.5,U} x exponent in (0,4] x "
        "adaptive smoothing in (0,3]. non-trivial: a window strategy run on a non-constant series whose output "
        "contains at least one transition sample different from its interval's average; distinct by case index "
        "(every case draws fresh data)."
        " Also: averages handed over as float32 / float16, a second object of the same class constructed (and used) between construction and rfa(), a second rfa() on the same object after the caller modified the first result, explicit a together with alpha, coincidence value classes (near-ties with large adaptive smoothing)."
        " Round-4 classes: constructor call forms (documented positional order / by name), series of 1001..1800 averages."
        " Round-5 classes: a 'threads' kind - batches of 8 recreation requests on different data issued concurrently from 4 threads, each answer bit-identical to its sequential answer."
        " Round-6 classes: RuntimeWarnings on ordinary input are violations (see C04)."
        " Round-7 classes: an equal earlier request on another object whose answer was edited in place before the judged request."
        " Round-8 classes: strategies as user classes derived from the library's; the request also through Weaver.recreate_from_average; ONE strategy object shared by the threads; first use of the library from several threads at once."
        " Round-9 classes: an earlier request on the same averages with other strategy parameters (parameter sweep on one series).")
REQUIRED_MONITORS = ["threads:rfa", "threads:first_use:rfa", "threads:first_use_yields_injected", "c05:intervals", "c05:constant_series", "c05:piecewise", "c05:cubic"]
ASSUMPTIONS = ["parameters in the documented ranges; explicit a clamped to >= 2 as documented",
               "monotonicity for exponent < 0.132954 is a recorded known finding (K1), not asserted"]
NSHARDS = 16
K1 = "K1-exp-blend-nonmonotone-exponent-below-0.132954"


def plan(tier, seed):
    return _plan(tier, seed) + _jobs.plan(tier)


def _plan(tier, seed):
    n = 16000 if tier == "quick" else 1200000
    return [{"kind": "random", "start": p * (n // NSHARDS), "count": n // NSHARDS} for p in range(NSHARDS)]


def k1_applies(strat, x, y, n, a, kw, k, bad_idx, ys):
    """mechanism classifier of the known finding: documented blend reproduced exactly, exponent below the bound"""
    if not strat.startswith("Exp") or not (kw.get("exp", 2.0) < R.K1_EXP_LIMIT):
        return False
    if "adaptive_smooth" in kw and kw["adaptive_smooth"] != 1.0:
        # documentation and code agree on the windows only for adaptive_smooth == 1; derive the windows observed
        return _k1_by_observed_windows(strat, x, y, n, kw, k, bad_idx, ys)
    mod, (AL, AR), knife = RM.model(strat, x, y, n, a, kw.get("beta", 0.5), kw.get("exp", 2.0))
    if knife:
        return _k1_by_observed_windows(strat, x, y, n, kw, k, bad_idx, ys)
    seg = RM.segments(strat, AL[k + 1], AR[k + 1], n, kw.get("beta", 0.5))
    scale = max(abs(float(v)) for v in y) or 1.0
    # "equals the documented blend": t**e with a small exponent amplifies the rounding of t (abscissae far from the
    # origin), so the comparison is made at 1e-6 of the data magnitude - a different formula would be off by O(1)
    for i in range(n):
        if abs(float(ys[k * n + i]) - mod[k * n + i]) > 1e-6 * scale:
            return False
    return all(seg[i % n] == "blend" or seg[(i + 1) % n] == "blend" or seg[(i - 1) % n] == "blend"
               for i in bad_idx if i < n)


def _k1_by_observed_windows(strat, x, y, n, kw, k, bad_idx, ys):
    """adaptive windows cannot be predicted (smoothing exponent / knife edge): accept the mechanism only if the
    interval's transition equals the documented blend for SOME integer window pair (searched exhaustively)."""
    m = len(y)
    yk = float(y[k])
    scale = max(abs(float(v)) for v in y) or 1.0
    G = RM.Grid(x, n)
    z = [float(v) for v in ys[k * n:(k + 1) * n + 1]]
    beta, e = kw.get("beta", 0.5), kw.get("exp", 2.0)
    diff = [i for i in range(n) if abs(z[i] - yk) > 1e-9 * scale]
    pre = 0
    while pre < n and pre in diff:
        pre += 1
    suf = 0
    while suf < n and (n - 1 - suf) in diff:
        suf += 1
    L, Rw = pre, suf + 1 if suf else 0
    ok = True
    if L:
        bl = int(beta * L)
        zb = RM.lin(G.P(k, bl), (G.P(k, 0), z[0]), (G.P(k, L), yk))
        for i in range(L):
            v = RM.lin(G.P(k, i), (G.P(k, 0), z[0]), (G.P(k, L), yk)) if i < bl else \
                RM.blend_up(G.P(k, i), (G.P(k, bl), zb), (G.P(k, L), yk), e)
            ok = ok and abs(v - z[i]) <= 1e-6 * scale
    if Rw:
        br = int(beta * Rw)
        if k < m - 2:
            zr = z[n]
        else:   # last interval: the border value is not part of the output; the virtual right interval has a_l = 1
            zr = RM.lin(G.P(k + 1, 0), (G.P(k, n - Rw), yk), (G.P(k + 1, 1), float(y[m - 1])))
        zb = RM.lin(G.P(k, n - br), (G.P(k, n - Rw), yk), (G.P(k, n), zr))
        for i in range(n - Rw + 1, n):
            v = RM.lin(G.P(k, i), (G.P(k, n - Rw), yk), (G.P(k, n), zr)) if i >= n - br else \
                RM.blend_down(G.P(k, i), (G.P(k, n - Rw), yk), (G.P(k, n - br), zb), e)
            ok = ok and abs(v - z[i]) <= 1e-6 * scale
    return ok


def judge_window(ctx, cid, strat, x, y, n, a, kw, ys, info):
    m = len(y)
    yl = [float(v) for v in y]
    zs = [float(v) for v in ys]
    nontrivial = False
    for k in range(m - 1):
        yk = yl[k]
        left = yl[k - 1] if k > 0 else yl[0]
        right = yl[k + 1]
        sc = max(abs(yk), abs(left), abs(right), 1e-300)
        t = 1e-9 * sc
        z = zs[k * n:(k + 1) * n + 1]        # includes the next border sample (or the final sample)
        same = [i for i in range(n) if abs(z[i] - yk) <= t]
        ctx.monitor("c05:intervals")
        if not same:
            ctx.violation("no_plateau", cid, {"interval": k, "z": z, "average": yk, "case": info})
            return False
        p, q = same[0], same[-1] + 1
        if same != list(range(p, q)):
            ctx.violation("plateau_not_contiguous", cid, {"interval": k, "z": z, "average": yk, "case": info})
            return False
        ndiff = n - len(same)
        if ndiff > a - 1:
            ctx.violation("too_many_transition_samples", cid, {"interval": k, "differing": ndiff, "a": a, "z": z,
                                                               "case": info})
            return False
        if ndiff:
            nontrivial = True
        # hull
        lo, hi = min(yk, left) - t, max(yk, left) + t
        for i in range(0, p):
            if not (lo <= z[i] <= hi):
                ctx.violation("overshoot_left", cid, {"interval": k, "i": i, "value": z[i], "hull": [left, yk],
                                                      "case": info})
                return False
        lo, hi = min(yk, right) - t, max(yk, right) + t
        for i in range(q, n):
            if not (lo <= z[i] <= hi):
                ctx.violation("overshoot_right", cid, {"interval": k, "i": i, "value": z[i], "hull": [yk, right],
                                                       "case": info})
                return False
        # monotone runs: border value -> plateau, plateau -> next border value
        bad = []
        s = 1.0 if yk >= left else -1.0
        for i in range(0, p):
            if (z[i + 1] - z[i]) * s < -t:
                bad.append(i)
        s = 1.0 if right >= yk else -1.0
        for i in range(max(q - 1, 0), n):
            if (z[i + 1] - z[i]) * s < -t:
                bad.append(i)
        if bad:
            detail = {"interval": k, "at": bad[:6], "z": z, "average": yk, "neighbours": [left, right], "case": info}
            if k1_applies(strat, x, y, n, a, kw, k, bad, ys):
                ctx.violation("not_monotone", cid, detail, mechanism=K1)
                ctx.count("known:K1")
            else:
                ctx.violation("not_monotone", cid, detail)
                return False
    last = zs[-1]
    lo, hi = min(yl[-1], yl[-2]), max(yl[-1], yl[-2])
    t = 1e-9 * max(abs(lo), abs(hi), 1e-300)
    if not (lo - t <= last <= hi + t):
        ctx.violation("last_sample_outside_hull", cid, {"last": last, "hull": [yl[-2], yl[-1]], "case": info})
        return False
    return nontrivial


def run_case(ctx, kind_, idx):
    rng = ctx.rng(kind_, idx)
    cid = ctx.case_id(kind_, idx)
    strat = R.ALL[int(rng.choice([0, 1, 2, 3, 0, 1, 2, 3, 4, 5]))]
    n = R.gen_n(rng)
    kw, a = R.gen_params(rng, strat, n)
    small_exp = strat.startswith("Exp") and kw.get("exp", 2.0) < R.K1_EXP_LIMIT
    x, y, meta = R.gen_series(rng, 2, 60, ties_share=0.45, real_valued=small_exp, long_share=R.LONG_SHARE)
    if strat == "CubicSplineRFA" and meta["m"] < 2:
        return
    x, y_arg, y = R.narrow_series(rng, x, y, meta)
    info = R.brief(strat, x, y, n, kw, meta)
    try:
        with fp_watch(ctx) as fpw:
            if rng.integers(0, 4) == 0:
                # the caller post-processes a first result in place and asks the same object again: what comes back
                # must be a recreation of the averages, not the caller's modified numbers
                obj = R.build(rng, strat, x, y_arg, n, kw)
                xs0, ys0 = obj.rfa()
                if isinstance(ys0, np.ndarray) and isinstance(xs0, np.ndarray):
                    ys0 *= -3.0
                    ys0 += 17.0
                    xs0 += 1.0
                xs, ys = obj.rfa()
                info["second_call_on_same_object"] = True
                ctx.count("second_call_on_same_object")
            else:
                xs, ys = R.run(strat, x, y_arg, n, kw, rng=rng)
    except Exception as e:
        ctx.judged()
        ctx.exception("raised_on_admissible_input", cid, e, {"case": info})
        return
    ctx.judged()
    if fpw.tripped:
        # the values are judged below; a caller running with warnings as errors or numpy.seterr(all="raise") would not
        # have got any - the unchanged code answers ordinary finite input without a single floating-point warning
        ctx.violation("floating_point_warning_on_ordinary_input", cid, {"warnings": fpw.tripped[:4], "case": info})
        return
    bad = R.well_formed(xs, ys, len(x), n)
    if bad:
        ctx.violation("malformed_output", cid, {"problem": bad, "case": info})
        return
    ctx.count("strategy:%s" % strat)
    ctx.count("y:%s" % meta["ycls"])
    mag = float(np.max(np.abs(y))) or 1.0
    nt = False
    if meta["ycls"] == "constant":
        ctx.monitor("c05:constant_series")
        # exact for the piecewise-constant strategy; the fit functions combine equal anchors with rounding
        ok = np.all(ys == y[0]) if strat == "PiecewiseConstantRFA" else np.all(np.abs(ys - y[0]) <= 1e-9 * mag)
        if not ok:
            ctx.violation("constant_not_preserved", cid, {"ys": ys, "case": info})
            return
        nt = True
    if strat == "PiecewiseConstantRFA":
        ctx.monitor("c05:piecewise")
        want = np.append(np.repeat(y[:-1], n), y[-1])
        if not np.array_equal(ys, want):
            ctx.violation("piecewise_not_exact_repetition", cid, {"ys": ys, "case": info})
            return
        nt = True
    elif strat == "CubicSplineRFA":
        ctx.monitor("c05:cubic")
        e = tol.maxerr(ys[::n], y, mag)
        ctx.track_worst("cubic_at_originals_rel", e)
        if not e <= tol.rel_for(x):
            ctx.violation("cubic_misses_original_points", cid, {"got": ys[::n], "want": y, "case": info})
            return
        nt = True
    else:
        if small_exp:
            ctx.count("exp_below_K1_bound")
        if judge_window(ctx, cid, strat, x, y, n, a, kw, ys, info):
            nt = True
    if nt:
        ctx.nontriv("c05", idx, strat)
    if idx % 4000 == 9:
        ctx.sample(info)


def run(ctx, spec):
    if spec["kind"] in ("threads", "threads_cold"):      # concurrent independent requests vs their sequential answers
        return _jobs.run(ctx, spec, ["rfa"])
    for idx in range(spec["start"], spec["start"] + spec["count"]):
        run_case(ctx, spec["kind"], idx)


def replay(ctx, case):
    if case["kind"] in ("threads", "threads_cold"):
        return _jobs.run_case(ctx, ["rfa"], case["idx"], cold=case["kind"] == "threads_cold")
    run_case(ctx, case["kind"], case["idx"])
