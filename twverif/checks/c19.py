"""C19 - remote dataset cache is never corrupt, stale-crossed or fed unchecked data (fault enumeration)."""
import itertools
import json
import os
import shutil
import subprocess
import time
import zlib

import numpy as np

from . import _ds
from .. import HOME
from ..monitors import fakenet

PROPERTY = "C19"
LEVEL = "fault_enumeration"
LEVEL_TEXT = ("Fault injection around the real load_csv_dataset_from_remote / load_dataset, one fresh child process per "
              "crash case: (a) scripted network fault sequences (URLError, TimeoutError, HTTP 503, short body, time-out in mid-body) of every "
              "length 0..n_retries+2 for n_retries 0..3 followed by good / corrupted / truncated / garbage / gzip "
              "payloads, judged on requests issued, virtual sleeps, exception type, cache state and a follow-up load; "
              "(b) a SIGKILL at every Python LINE event, every CALL / C_RETURN event inside datasets/_base.py and every "
              "write / rename / unlink / rmdir / mkdir system call (strace injection) of a load - and, instead of a kill, "
              "an error return (ENOSPC on write, EACCES on rename / mkdir) from each of those calls -, for plain and gzip "
              "payloads, flag combinations and cold / warm caches, followed by an offline check of the cache entry "
              "(absent or bit-for-bit complete) and follow-up loads with and without network; (c) 2..16 concurrent "
              "loader processes on one data home with yield injection, judged on every return value, the final entry "
              "and recorded per-process event histories; (d) the flag table; (e) ordered pairs of remote names.")
LEVEL_NOTE = ("Crash = death of the process (SIGKILL), not power loss; kills inside a single system call are not reachable; "
              "schedules of concurrent loaders are sampled (distinct interleaving signatures are counted), the "
              "deterministic crash-point enumeration is what decides atomicity. The network is a fake urllib opener; the "
              "wall clock is only a watchdog.")
TECHNIQUE = "fault injection + offline history/state checking: scripted network faults, SIGKILL at every sys.monitoring event and traced syscall, concurrent loader processes"
RULE = ("case = one load under one fault: a fault sequence (enumerated), a kill point (enumerated after a dry run that "
        "counts the events of the configuration), a concurrent round (k loaders, seeded yield injection), a flag "
        "combination x cache state, or an ordered pair of remote names. non-trivial: the fault was actually delivered "
        "(>= 1 failing request, the process died by SIGKILL, >= 2 loaders overlapped, a pair of different names); "
        "distinct by case description."
        " Round-4 classes: the HTTP letter of the fault alphabet stands for a transient status drawn from 503, 429, 408, 500, 502, 504; the remote loader's own defaults (gzip, unpack_dataset_columns) are exercised by omission."
        " Round-5 classes: gzip payloads of 1..3 members."
        " Round-6 classes: the permission bits of the cache entry (group / others may read as far as the umask allows)."
        " Round-7 classes: a 'suspend' kind - a refreshing loader suspended at every line (quick: of the library's file; thorough: also tempfile / shutil / urllib) while a second loader runs to completion with downloading forbidden and with default flags; on a warm cache non-refreshing loaders of the concurrent rounds must not issue requests."
        " Round-8 classes: every loader process seeds the stdlib and NumPy global generators with the same constant (a reproducible script): names drawn from them repeat between the killed and the later run and between concurrent runs; pauses taken by other means than time.sleep are inconclusive."
        " Round-9 classes: loaders that run one after the other all see process id 1 and main-thread id 1 (a container restarting); INFO / DEBUG logging in every second loader; a kill point inside the load that is not delivered makes the run inconclusive.")
REQUIRED_MONITORS = ["c19:kill_delivered", "c19:suspend", "c19:entry_mode", "c19:fault_sequence", "c19:kill_line", "c19:kill_call", "c19:concurrent", "c19:flags", "c19:pairs",
                     "c19:followup_after_kill"]      # c19:kill_syscall / c19:syscall_error need strace (skipped + noted if absent)
ASSUMPTIONS = ["process crash only (no fsync / power loss claims)", "the fake opener stands for the network"]
TIMEOUT = {"quick": 900, "thorough": 7200}
FAULTS = ["urlerror", "timeout", "http503", "short", "midbody"]
FAULT_EXC = {"urlerror": "URLError", "timeout": "TimeoutError", "http503": "HTTPError", "short": "ContentTooShortError",
             "midbody": "TimeoutError"}
# transient answers of a loaded or rate-limiting file host; every one is an HTTPError, i.e. a URLError
HTTP_TRANSIENT = [503, 429, 408, 500, 502, 504]


def fault_exc(kind):
    return "HTTPError" if kind.startswith("http") else FAULT_EXC[kind]


def http_flavours(nr, seq, fin):
    """the 'http503' letter of the enumerated alphabet stands for a transient HTTP refusal; which status it is varies
    with the position and the case (the alphabet, and with it the number of enumerated sequences, stays the same)"""
    salt = nr + len(seq) + len(fin)
    return ["http%d" % HTTP_TRANSIENT[(salt + 2 * i) % len(HTTP_TRANSIENT)] if k == "http503" else k
            for i, k in enumerate(seq)]
FINALS = ["good", "corrupt", "truncated", "garbage", "gzgood"]
URL = "https://example.invalid/files/%s"
NSH = 16


# ------------------------------------------------------------------------------------------------ plan
def kill_configs(tier):
    """(payload gz?, download_if_missing, download_even_if_available, warm cache?, payload rows).
    Payload sizes matter: 40 rows (~0.8 KB) stay entirely in user-space buffers until the files are closed, 400 rows
    (~6.5 KB pickle) exceed the file buffer once, 6000 rows (~96 KB pickle, ~150 KB csv) need several write calls and
    exceed pickle's 64 KiB framing threshold."""
    if tier == "quick":
        return [(False, True, False, False, 40)]
    out = []
    for gz in (False, True):
        for dim in (True, False):
            for deia in (False, True):
                for warm in (False, True):
                    downloads = dim and (deia or not warm)
                    for rows in ((40, 400, 6000) if downloads else (40, 6000)):
                        out.append((gz, dim, deia, warm, rows))
    return out


def plan(tier, seed):
    specs = [{"kind": "faults", "part": p, "parts": NSH} for p in range(NSH)]
    cfgs = kill_configs(tier)
    stride = 4 if tier == "quick" else 1
    for ci, cfg in enumerate(cfgs):
        for mode in ("line", "call", "syscall", "syserr"):
            if mode == "syserr" and not (cfg[1] and (cfg[2] or not cfg[3])):
                continue                       # error injection only where something is written
            if tier == "quick" and mode in ("syscall", "syserr"):
                cfg = cfg[:4] + (6000,)        # many write calls: the interesting case for syscall-level faults
            nparts = 8 if tier == "quick" else (6 if mode == "line" else 2)
            if tier == "quick" and mode != "line":
                nparts = 2
            if mode == "syserr":
                nparts = 4
            for p in range(nparts):
                specs.append({"kind": "kill", "cfg": list(cfg), "mode": mode, "part": p, "parts": nparts,
                              "stride": stride if mode == "line" else 1})
    rounds = 16 if tier == "quick" else 640
    specs += [{"kind": "concurrent", "start": p * (rounds // NSH), "count": rounds // NSH, "big": tier != "quick"}
              for p in range(NSH)]
    # a refreshing loader suspended at every (quick: every 5th) line event while a second loader runs to completion
    for gz in ((False,) if tier == "quick" else (False, True)):
        nparts = 6 if tier == "quick" else 12
        # quick: every line of the library's own file; thorough: every line of the library, tempfile, shutil, urllib
        specs += [{"kind": "suspend", "gz": gz, "part": p, "parts": nparts, "stride": 1, "library_lines_only": tier == "quick"}
                  for p in range(nparts)]
    specs.append({"kind": "flags"})
    npairs = 300 if tier == "quick" else None
    specs += [{"kind": "pairs", "part": p, "parts": 8, "sample": npairs} for p in range(8)]
    return specs


def exhaustive(tier, merged):
    if tier == "quick":
        return ("fault sequences: all over 5 fault kinds of length 0..3 for n_retries 0..3 (+ a sample of lengths 4, 5) x 5 "
                "final payloads; crash points: every 4th LINE event and every CALL/C_RETURN and traced syscall of one "
                "configuration; flag table complete")
    return ("fault sequences: all 4687 over 5 fault kinds of length 0..n_retries+2 for n_retries 0..3 x 5 final payloads; "
            "crash points: every LINE, CALL/C_RETURN event and traced syscall of all (gzip x flags x cache x payload "
            "size) configurations; flag table complete; all ordered pairs of the remote names")


# ------------------------------------------------------------------------------------------------ (a) fault sequences
def fault_cases(tier, rng):
    out = []
    for nr in range(0, 4):
        for f in range(0, nr + 3):
            for seq in itertools.product(FAULTS, repeat=f):
                for fin in FINALS:
                    # quick: every sequence of up to 3 faults, a sample of the longer ones (thorough: all)
                    if tier == "quick" and f >= 4 and rng.random() > (0.12 if f == 4 else 0.02):
                        continue
                    out.append((nr, http_flavours(nr, list(seq), fin), fin))
    return out


def run_faults(ctx, spec):
    rng = np.random.default_rng([ctx.seed, 19, 1])
    cases = [c for i, c in enumerate(fault_cases(ctx.tier, rng)) if i % spec["parts"] == spec["part"]]
    scratch = _ds.scratch_root()
    try:
        home = os.path.join(scratch, "home")
        os.mkdir(home)
        for chunk_start in range(0, len(cases), 150):
            chunk = cases[chunk_start:chunk_start + 150]
            steps, idxs = [], []
            for ci, (nr, seq, fin) in enumerate(chunk):
                url = URL % ("fs-%d-%s-%s" % (nr, "".join(s[0] for s in seq), fin))
                gz = fin == "gzgood"
                final_action = "good" if gz else fin
                steps.append({"op": "clear_home"})
                steps.append({"op": "net", "scripts": {url: seq + [final_action]}, "default": "good"})
                steps.append({"op": "remote", "url": url, "dataset_filename": "entry", "folder": "fold", "gz": gz,
                              "n_retries": nr, "delay": 0.25, "filename": "dl.csv"})
                idxs.append(len(steps) - 1)
                steps.append({"op": "listing"})
                steps.append({"op": "net", "default": "good"})
                steps.append({"op": "remote", "url": url, "dataset_filename": "entry", "folder": "fold", "gz": gz,
                              "n_retries": 0, "delay": 0.25, "filename": "dl.csv"})
            rc, out, err = _ds.run_child({"home": home, "steps": steps}, scratch, timeout=600)
            if out is None:
                raise RuntimeError("dataset child failed rc=%s: %s" % (rc, err))
            res = out["results"]
            for (nr, seq, fin), si in zip(chunk, idxs):
                judge_fault(ctx, nr, seq, fin, res[si], res[si + 1], res[si + 3], home)
        if cases:
            nr, seq, fin = cases[len(cases) // 2]
            ctx.sample({"n_retries": nr, "fault_sequence": seq, "final_payload": fin})
    finally:
        shutil.rmtree(scratch, ignore_errors=True)


def judge_fault(ctx, nr, seq, fin, r, lst, follow, home=None):
    cid = {"kind": "faults", "n_retries": nr, "sequence": seq, "final": fin, "seed": ctx.seed}
    url = URL % ("fs-%d-%s-%s" % (nr, "".join(s[0] for s in seq), fin))     # initials: u t h s m
    f = len(seq)
    ctx.judged()
    ctx.monitor("c19:fault_sequence")
    ctx.count("faults:n_retries=%d" % nr)
    if [e for e in r.get("audit", []) if e[0] == "REAL_NETWORK"]:
        raise RuntimeError("harness error: real network touched")
    if home is not None:
        bad = _ds.outside_writes(r.get("audit", []), home)
        if bad:
            ctx.violation("file_written_outside_data_home", cid, {"events": bad[:5]})
            return
    nreq = len(r["requests"])
    files = [e for e in lst["listing"] if isinstance(e, list)]
    dirs = [e for e in lst["listing"] if isinstance(e, str)]
    leftover = [d for d in dirs if d.count("/") > 1]
    detail = {"requests": r["requests"], "sleeps": r["sleeps"], "outcome": r.get("outcome"),
              "exception": r.get("exc_type"), "listing": lst["listing"]}
    if leftover or any(os.path.basename(p[0]) != "entry" for p in files):
        ctx.violation("temporary_files_survive_the_load", cid, detail)
        return
    if f > nr:      # the loader must give up after n_retries retries and propagate the last error
        want_exc = fault_exc(seq[nr])
        if r.get("outcome") != "exc" or r.get("exc_type") != want_exc:
            ctx.violation("exhausted_retries_not_propagated", cid, dict(detail, expected_exception=want_exc))
            return
        _ds.pauses_observable(r, nr, 0.25)
        if nreq != nr + 1 or len(r["sleeps"]) != nr or any(abs(s - 0.25) > 1e-12 for s in r["sleeps"]):
            ctx.violation("retry_count_or_backoff", cid, dict(detail, expected_requests=nr + 1, expected_sleeps=nr))
            return
        if files:
            ctx.violation("cache_entry_after_failed_download", cid, detail)
            return
    else:
        _ds.pauses_observable(r, f, 0.25)
        if nreq != f + 1 or len(r["sleeps"]) != f or any(abs(s - 0.25) > 1e-12 for s in r["sleeps"]):
            ctx.violation("retry_count_or_backoff", cid, dict(detail, expected_requests=f + 1, expected_sleeps=f))
            return
        if fin in ("good", "gzgood"):
            if r.get("outcome") != "ok" or not _ds.same_data(r["data"], _ds.expected_desc(url)):
                ctx.violation("transient_errors_not_absorbed", cid, detail)
                return
            if [p[0] for p in files] != [os.path.join("fold", "entry")]:
                ctx.violation("cache_entry_missing_after_success", cid, detail)
                return
            # the entry is an ordinary file of the data home: whoever may read the data home (another account sharing
            # it, the non-root user of a container whose image pre-fetched the data) can read the entry, as far as the
            # creating process's umask allows - "a later load succeeds" is not limited to the account that downloaded
            mode = files[0][2] if len(files[0]) > 2 else None
            ctx.monitor("c19:entry_mode")
            if mode is not None and (mode & 0o044) != (0o044 & ~_ds.UMASK):
                ctx.violation("cache_entry_not_readable_by_other_accounts", cid,
                              dict(detail, mode=oct(mode), umask=oct(_ds.UMASK)))
                return
        else:
            if r.get("outcome") != "exc" or r.get("exc_type") != "OSError":
                ctx.violation("unverified_data_accepted", cid, dict(detail, expected_exception="OSError"))
                return
            if files:
                ctx.violation("unverified_data_cached", cid, detail)
                return
    # a later load with a healthy network returns exactly the data
    exp_req = 0 if files else 1
    if follow.get("outcome") != "ok" or not _ds.same_data(follow["data"], _ds.expected_desc(url)) \
            or len(follow["requests"]) != exp_req:
        ctx.violation("later_load_after_faults", cid, {"follow_up": {k: follow.get(k) for k in
                                                                      ("outcome", "exc_type", "requests", "data")},
                                                       "expected_requests": exp_req})
        return
    if f >= 1 or fin not in ("good",):
        ctx.nontriv("faults", nr, seq, fin)


# ------------------------------------------------------------------------------------------------ (b) crash points
def cfg_name(cfg):
    gz, dim, deia, warm, rows = cfg
    return "%s,dim=%d,deia=%d,%s,rows=%d" % ("gzip" if gz else "plain", dim, deia, "warm" if warm else "cold", rows)


def warm_up(cfg, url, rows, home, scratch):
    """pre-existing cache entry, produced by a separate, untraced child so that no kill point can fall into it"""
    gz, dim, deia, warm = cfg[:4]
    if not warm:
        return
    rc, out, err = _ds.run_child({"home": home, "steps": [
        {"op": "net", "default": "good"},
        {"op": "remote", "url": url, "dataset_filename": "entry", "folder": "fold", "gz": gz, "rows": rows}]}, scratch)
    if out is None or out["results"][1].get("outcome") != "ok":
        raise RuntimeError("warm-up load failed: rc=%s %s" % (rc, err))


def kill_steps(cfg, url, rows):
    gz, dim, deia, warm = cfg[:4]
    pre = []
    target = {"op": "remote", "url": url, "dataset_filename": "entry", "folder": "fold", "gz": gz, "rows": rows,
              "flags": {"download_if_missing": bool(dim), "download_even_if_available": bool(deia)},
              "n_retries": 1, "delay": 0.1}
    return pre + [{"op": "net", "default": "good"}, target], len(pre) + 1


STRACE_CALLS = ["write", "rename", "unlink", "unlinkat", "rmdir", "mkdir", "openat"]


def strace_available():
    if shutil.which("strace") is None:
        return False
    try:
        p = subprocess.run(["strace", "-qq", "-o", "/dev/null", "-e", "trace=write", "true"], capture_output=True,
                           timeout=20)
        return p.returncode == 0
    except Exception:
        return False


def syscall_counts(cfg, url, rows, scratch, home_root):
    """dry run under strace: how often does each traced call occur, restricted to paths under the data home for
    path-taking calls (openat is counted only there, otherwise interpreter start-up would dominate)"""
    home = os.path.join(home_root, "dry")
    os.makedirs(home, exist_ok=True)
    steps, _ti = kill_steps(cfg, url, rows)
    warm_up(cfg, url, rows, home, scratch)
    log = os.path.join(scratch, "strace-dry.log")
    prefix = ["strace", "-f", "-qq", "-o", log, "-e", "trace=" + ",".join(STRACE_CALLS)]
    rc, out, err = _ds.run_child({"home": home, "steps": steps}, scratch, prefix=prefix)
    counts = {}
    if out is None:
        return counts
    for line in open(log, errors="replace"):
        for c in STRACE_CALLS:
            if (" %s(" % c) in line or line.startswith(c + "("):
                if c == "openat" and home not in line:
                    continue
                counts[c] = counts.get(c, 0) + 1
    shutil.rmtree(home, ignore_errors=True)
    return counts


def run_kill(ctx, spec):
    cfg = tuple(spec["cfg"])
    mode = spec["mode"]
    name = cfg_name(cfg)
    url = URL % ("kill-" + name.replace(",", "_").replace("=", ""))
    rows = cfg[4]
    scratch = _ds.scratch_root()
    try:
        steps, ti = kill_steps(cfg, url, rows)
        if mode in ("syscall", "syserr"):
            if not strace_available():
                ctx.discard("strace_unavailable")
                ctx.note("strace not usable here: syscall kill points skipped, Python-event enumeration decides")
                return
            counts = syscall_counts(cfg, url, rows, scratch, scratch)
            if mode == "syserr":
                # the call fails instead of the process dying: no space left on device / rename refused / mkdir refused
                points = [(c, k) for c in ("write", "rename", "mkdir") for k in range(1, counts.get(c, 0) + 1)]
            else:
                points = [(c, k) for c in STRACE_CALLS if c != "openat" for k in range(1, counts.get(c, 0) + 1)]
            ctx.setadd("syscall_counts", "%s: %s" % (name, json.dumps(counts, sort_keys=True)))
        else:
            home = os.path.join(scratch, "dry")
            os.mkdir(home)
            warm_up(cfg, url, rows, home, scratch)
            rc, out, err = _ds.run_child({"home": home, "steps": steps, "kill": {"events": mode, "at": None, "step": ti}},
                                         scratch)
            if out is None:
                raise RuntimeError("dry run failed rc=%s %s" % (rc, err))
            n = out["results"][ti]["events_counted"]
            ctx.setadd("event_counts", "%s %s events=%d" % (name, mode, n))
            points = [(mode, k) for k in range(1, n + 2, spec.get("stride", 1))]   # n+1: beyond the last event -> no kill
        mine = [p for i, p in enumerate(points) if i % spec["parts"] == spec["part"]]
        for what, k in mine:
            home = os.path.join(scratch, "h-%s-%d" % (what, k))
            os.mkdir(home)
            cid = {"kind": "kill", "cfg": list(cfg), "mode": mode, "what": what, "at": k, "seed": ctx.seed}
            warm_up(cfg, url, rows, home, scratch)
            if mode == "syserr":
                errno_ = {"write": "ENOSPC", "rename": "EACCES", "mkdir": "EACCES"}[what]
                prefix = ["strace", "-f", "-qq", "-o", "/dev/null", "-e", "trace=" + what,
                          "-e", "inject=%s:error=%s:when=%d" % (what, errno_, k)]
                rc, out, err = _ds.run_child({"home": home, "steps": steps}, scratch, prefix=prefix)
                if out is None:
                    # the injected error also hits the child's own result line (a write to stdout): not a load fault
                    ctx.discard("syserr_hit_the_harness_output")
                    shutil.rmtree(home, ignore_errors=True)
                    continue
                judge_after_syserr(ctx, cid, cfg, url, rows, home, scratch, out, ti, what, errno_)
                shutil.rmtree(home, ignore_errors=True)
                continue
            if mode == "syscall":
                prefix = ["strace", "-f", "-qq", "-o", "/dev/null", "-e", "trace=" + what,
                          "-e", "inject=%s:signal=KILL:when=%d" % (what, k)]
                rc, out, err = _ds.run_child({"home": home, "steps": steps}, scratch, prefix=prefix)
            else:
                rc, out, err = _ds.run_child({"home": home, "steps": steps,
                                              "kill": {"events": mode, "at": k, "step": ti}}, scratch)
            killed = out is None
            if rc == "timeout":
                raise RuntimeError("kill child timed out")
            if not killed and what == mode and k <= n:
                # the kill point lies inside the load, yet the child answered: the kill was never delivered
                raise RuntimeError("kill at %s event %d of %d was not delivered (inconclusive)" % (mode, k, n))
            if killed:
                ctx.monitor("c19:kill_delivered")
            if killed and rc not in (-9, 137):
                raise RuntimeError("kill child ended with rc=%s without result: %s" % (rc, err))
            judge_after_kill(ctx, cid, cfg, url, rows, home, scratch, killed, out, ti)
            shutil.rmtree(home, ignore_errors=True)
        if mine:
            ctx.sample({"config": name, "kill_mode": mode, "points_in_this_shard": len(mine), "first": list(mine[0])})
    finally:
        shutil.rmtree(scratch, ignore_errors=True)


def judge_after_syserr(ctx, cid, cfg, url, rows, home, scratch, out, ti, what, errno_):
    """a system call of the load failed (disk full, permission): the load may fail, but the cache entry must be absent or
    complete (a pre-existing one intact), and a later load without the fault must succeed and return exactly the data"""
    gz, dim, deia, warm = cfg[:4]
    ctx.judged()
    ctx.monitor("c19:syscall_error")
    r = out["results"][ti]
    entry = os.path.join(home, "fold", "entry")
    state = _ds.cache_entry_ok(entry, url, rows)
    detail = {"failed_call": what, "errno": errno_, "outcome": r.get("outcome"), "exception": r.get("exc_type"),
              "message": r.get("exc_msg"), "state": state}
    ctx.count("syserr:%s:%s" % (what, r.get("exc_type") or "ok"))
    if state not in ("absent", "complete") or (warm and state != "complete"):
        ctx.violation("cache_entry_damaged_by_failed_system_call", cid, detail)
        return
    if r.get("outcome") == "ok":
        if not _ds.same_data(r["data"], _ds.expected_desc(url, rows)):
            ctx.violation("wrong_data_returned_after_failed_system_call", cid, detail)
            return
    elif "OSError" not in (r.get("exc_mro") or []):
        ctx.violation("failed_system_call_surfaced_as_non_OSError", cid, detail)
        return
    base = {"op": "remote", "url": url, "dataset_filename": "entry", "folder": "fold", "gz": gz, "rows": rows,
            "n_retries": 0, "delay": 0.1}
    rc, fo, err = _ds.run_child({"home": home, "steps": [{"op": "net", "default": "good"}, base]}, scratch)
    if fo is None:
        raise RuntimeError("follow-up child failed rc=%s %s" % (rc, err))
    f = fo["results"][1]
    if f.get("outcome") != "ok" or not _ds.same_data(f["data"], _ds.expected_desc(url, rows)):
        ctx.violation("later_load_fails_after_failed_system_call", cid, dict(detail, follow_up=f.get("exc_type"),
                                                                              follow_up_message=f.get("exc_msg")))
        return
    if r.get("outcome") != "ok":
        ctx.nontriv("syserr", cid["cfg"], what, cid["at"])


def judge_after_kill(ctx, cid, cfg, url, rows, home, scratch, killed, out, ti):
    gz, dim, deia, warm = cfg[:4]
    mode = cid["mode"]
    ctx.judged()
    ctx.monitor({"line": "c19:kill_line", "call": "c19:kill_call", "syscall": "c19:kill_syscall"}[mode])
    ctx.count("kill:%s:%s" % (cfg_name(cfg), "died" if killed else "survived"))
    entry = os.path.join(home, "fold", "entry")
    state = _ds.cache_entry_ok(entry, url, rows)
    if state not in ("absent", "complete"):
        ctx.violation("cache_entry_incomplete_after_crash", cid, {"state": state,
                                                                  "listing": os.listdir(os.path.join(home, "fold"))})
        return
    if warm and state != "complete":
        ctx.violation("existing_cache_entry_lost_by_crash", cid, {"state": state})
        return
    if not killed:
        # the kill point lay beyond the end of the load (or the flags made it a no-op): judge the normal outcome
        r = out["results"][ti]
        expect_ok = warm or dim
        if expect_ok and (r.get("outcome") != "ok" or not _ds.same_data(r["data"], _ds.expected_desc(url, rows))):
            ctx.violation("load_without_crash_failed", cid, {"outcome": r.get("outcome"), "exception": r.get("exc_type")})
            return
        if not expect_ok and (r.get("outcome") != "exc" or r.get("exc_type") != "OSError"):
            ctx.violation("missing_data_without_download_not_OSError", cid, {"outcome": r.get("outcome"),
                                                                             "exception": r.get("exc_type")})
            return
    # follow-up in a fresh process on the same data home
    base = {"op": "remote", "url": url, "dataset_filename": "entry", "folder": "fold", "gz": gz, "rows": rows,
            "n_retries": 0, "delay": 0.1}
    steps = []
    if state == "complete":
        steps += [{"op": "net", "default": "urlerror"}, dict(base)]
    steps += [{"op": "net", "default": "good"}, dict(base), {"op": "listing"}]
    rc, fo, err = _ds.run_child({"home": home, "steps": steps}, scratch)
    if fo is None:
        raise RuntimeError("follow-up child failed rc=%s %s" % (rc, err))
    ctx.monitor("c19:followup_after_kill")
    res = fo["results"]
    want = _ds.expected_desc(url, rows)
    if state == "complete":
        r = res[1]
        if r.get("outcome") != "ok" or r["requests"] or not _ds.same_data(r["data"], want):
            ctx.violation("cached_entry_not_served_offline_after_crash", cid,
                          {"outcome": r.get("outcome"), "exception": r.get("exc_type"), "requests": r["requests"]})
            return
        r = res[3]
    else:
        r = res[1]
    if r.get("outcome") != "ok" or not _ds.same_data(r["data"], want):
        ctx.violation("later_load_fails_after_crash", cid, {"outcome": r.get("outcome"), "exception": r.get("exc_type"),
                                                            "message": r.get("exc_msg"), "state_after_crash": state})
        return
    if _ds.cache_entry_ok(entry, url, rows) != "complete":
        ctx.violation("cache_entry_not_complete_after_later_load", cid, {})
        return
    if killed:
        ctx.nontriv("kill", cid["cfg"], mode, cid["what"], cid["at"])
        ctx.setadd("state_after_kill", "%s:%s" % (cfg_name(cfg), state))


# ------------------------------------------------------------------------------------------------ (c) concurrency
def run_suspend(ctx, spec):
    """One loader REFRESHES a cached dataset (download_even_if_available) and is suspended at every k-th Python line of
    its load; while it stands still, a second, complete loader asks for the same dataset without refreshing - once with
    downloading forbidden and the network down, once with default flags.  The dataset was cached before and is cached
    after: the second loader is served from the cache at EVERY suspension point (no 'Data not found', no request), and
    the refreshing loader finishes normally afterwards.  Deterministic counterpart of the concurrent rounds."""
    gz = bool(spec.get("gz", False))
    rows = 400
    url = URL % ("suspend-%s" % ("gz" if gz else "csv"))
    base = {"op": "remote", "url": url, "dataset_filename": "entry", "folder": "fold", "gz": gz, "rows": rows,
            "n_retries": 0, "delay": 0.1}
    scratch = _ds.scratch_root()
    try:
        home = os.path.join(scratch, "home")
        os.mkdir(home)
        rc, out, err = _ds.run_child({"home": home, "steps": [{"op": "net", "default": "good"}, dict(base)]}, scratch)
        if out is None or out["results"][1].get("outcome") != "ok":
            raise RuntimeError("warm-up failed rc=%s %s" % (rc, err))
        refresh = dict(base, flags={"download_if_missing": True, "download_even_if_available": True})
        steps_a = [{"op": "net", "default": "good"}, refresh]
        lib_only = bool(spec.get("library_lines_only"))
        rc, out, err = _ds.run_child({"home": home, "steps": steps_a,
                                      "kill": {"events": "line", "at": None, "step": 1,
                                               "pause": {"ready": os.path.join(scratch, "never"), "resume": os.path.join(scratch, "never"),
                                                         "only_library_lines": lib_only}}}, scratch)
        if out is None:
            raise RuntimeError("dry run failed rc=%s %s" % (rc, err))
        n_events = out["results"][1]["events_counted"]
        ctx.setadd("event_counts", "suspend %s events=%d" % ("gz" if gz else "csv", n_events))
        want = _ds.expected_desc(url, rows)
        points = [k for i, k in enumerate(range(1, n_events + 1, spec.get("stride", 1))) if i % spec["parts"] == spec["part"]]
        for k in points:
            cid = {"kind": "suspend", "gz": gz, "at": k, "seed": ctx.seed}
            ready, resume = os.path.join(scratch, "ready-%d" % k), os.path.join(scratch, "resume-%d" % k)
            spec_a = {"home": home, "steps": steps_a,
                      "kill": {"events": "line", "at": k, "step": 1,
                               "pause": {"ready": ready, "resume": resume, "timeout": 90, "only_library_lines": lib_only}}}
            pa = subprocess.Popen(_ds.child_cmd(spec_a, scratch), env=_ds.child_env(), cwd=HOME, stdout=subprocess.PIPE,
                                  stderr=subprocess.PIPE, text=True)
            t0 = time.monotonic()
            while not os.path.exists(ready) and pa.poll() is None and time.monotonic() - t0 < 60:
                time.sleep(0.002)
            ctx.judged()
            ctx.monitor("c19:suspend")
            bad = None
            if os.path.exists(ready):
                strict = dict(base, flags={"download_if_missing": False})
                rc, ob, err = _ds.run_child({"home": home, "steps": [{"op": "net", "default": "urlerror"}, strict,
                                                                     {"op": "net", "default": "good"}, dict(base)]}, scratch)
                if ob is None:
                    bad = ("second_loader_crashed", {"rc": rc, "stderr": (err or "")[-600:]})
                else:
                    r1, r2 = ob["results"][1], ob["results"][3]
                    if r1.get("outcome") != "ok" or not _ds.same_data(r1["data"], want):
                        bad = ("cached_dataset_not_available_while_another_loader_refreshes_it",
                               {"outcome": r1.get("outcome"), "exception": r1.get("exc_type"), "message": r1.get("exc_msg")})
                    elif r2.get("outcome") != "ok" or not _ds.same_data(r2["data"], want) or r2["requests"]:
                        bad = ("cached_dataset_requested_again_while_another_loader_refreshes_it",
                               {"outcome": r2.get("outcome"), "exception": r2.get("exc_type"), "requests": r2.get("requests")})
                ctx.nontriv("suspend", gz, k)
            open(resume, "w").close()
            try:
                so, se = pa.communicate(timeout=120)
            except subprocess.TimeoutExpired:
                pa.kill()
                raise RuntimeError("suspended loader exceeded the watchdog (inconclusive)")
            oa = _ds.parse_child(so)
            if bad is None and (oa is None or oa["results"][1].get("outcome") != "ok"
                                or not _ds.same_data(oa["results"][1]["data"], want)):
                bad = ("refreshing_loader_failed_after_being_suspended",
                       {"rc": pa.returncode, "result": (oa or {}).get("results", [None, None])[1] if oa else None,
                        "stderr": (se or "")[-600:]})
            if bad is None and _ds.cache_entry_ok(os.path.join(home, "fold", "entry"), url, rows) != "complete":
                bad = ("final_cache_entry_not_complete", {})
            for f_ in (ready, resume):
                if os.path.exists(f_):
                    os.remove(f_)
            if bad is not None:
                ctx.violation(bad[0], cid, dict(bad[1], suspended_at_line_event=k, of=n_events))
                return
        ctx.sample({"suspend": {"gz": gz, "line_events_in_a_refreshing_load": n_events, "points_in_this_shard": len(points)}})
    finally:
        shutil.rmtree(scratch, ignore_errors=True)


def run_concurrent(ctx, spec):
    for idx in range(spec["start"], spec["start"] + spec["count"]):
        concurrent_round(ctx, idx, spec.get("big", False))


def concurrent_round(ctx, idx, big):
    rng = ctx.rng("concurrent", idx)
    k = int(rng.choice([2, 3, 4, 8, 16]))
    rows = int(rng.choice([3000, 20000, 120000] if big else [3000, 20000]))
    gz = bool(rng.integers(0, 4) == 0)
    url = URL % ("conc-%d" % idx)
    warm = bool(rng.integers(0, 4) == 0)
    cid = ctx.case_id("concurrent", idx, loaders=k, rows=rows, gz=gz, warm=warm)
    scratch = _ds.scratch_root()
    try:
        home = os.path.join(scratch, "home")
        os.mkdir(home)
        log = os.path.join(scratch, "audit.log")
        if warm:
            rc, out, err = _ds.run_child({"home": home, "steps": [
                {"op": "net", "default": "good"},
                {"op": "remote", "url": url, "dataset_filename": "entry", "folder": "fold", "gz": gz, "rows": rows}]}, scratch)
            if out is None:
                raise RuntimeError("warm-up failed %s" % err)
        go = os.path.join(scratch, "go")
        procs = []
        flags_used = []
        # in a third of the rounds one loader is killed at a random step boundary while the others keep going
        victim = int(rng.integers(0, k)) if rng.integers(0, 3) == 0 else None
        victim_at = int(rng.integers(1, 330))
        missing_ok = []
        for i in range(k):
            force = bool(rng.integers(0, 3) == 0)
            flags_used.append(force)
            # on a warm cache a loader that does not force a refresh may as well forbid downloading: the dataset is there
            dl_if_missing = True if (force or not warm) else bool(rng.integers(0, 2))
            missing_ok.append(dl_if_missing)
            spec = {"home": home, "audit_log": log,
                    "yield": {"seed": int(rng.integers(0, 2 ** 31)), "p": float(rng.choice([0.02, 0.1, 0.3])),
                              "max_s": float(rng.choice([0.0005, 0.002, 0.01]))},
                    **({"kill": {"events": "line", "at": victim_at, "step": 2}} if i == victim else {}),
                    "steps": [{"op": "net", "default": "good"},
                              {"op": "barrier", "ready": os.path.join(scratch, "ready-%d" % i), "go": go, "timeout": 120},
                              {"op": "remote", "url": url, "dataset_filename": "entry", "folder": "fold", "gz": gz,
                               "rows": rows, "flags": {"download_if_missing": dl_if_missing, "download_even_if_available": force},
                               "n_retries": 0, "delay": 0.1},
                              {"op": "remote", "url": url, "dataset_filename": "entry", "folder": "fold", "gz": gz,
                               "rows": rows, "n_retries": 0, "delay": 0.1}]}
            cmd = _ds.child_cmd(spec, scratch)
            procs.append(subprocess.Popen(cmd, env=_ds.child_env(), cwd=HOME, stdout=subprocess.PIPE,
                                          stderr=subprocess.PIPE, text=True))
        t0 = time.monotonic()
        while sum(os.path.exists(os.path.join(scratch, "ready-%d" % i)) for i in range(k)) < k:
            if time.monotonic() - t0 > 100 or any(p.poll() is not None for p in procs):
                break
            time.sleep(0.002)
        open(go, "w").close()
        outs = []
        for p in procs:
            try:
                so, se = p.communicate(timeout=300)
            except subprocess.TimeoutExpired:
                p.kill()
                raise RuntimeError("concurrent loader exceeded the watchdog (inconclusive)")
            outs.append((_ds.parse_child(so), se, p.returncode))
        ctx.judged()
        ctx.monitor("c19:concurrent")
        ctx.count("concurrent:loaders=%d" % k)
        want = _ds.expected_desc(url, rows)
        for i, (o, se, rc) in enumerate(outs):
            if o is None and i == victim and rc in (-9, 137):
                ctx.count("concurrent:victim_killed")
                continue
            if o is None:
                ctx.violation("concurrent_loader_crashed", cid, {"loader": i, "rc": rc, "stderr": se[-800:]})
                return
            for j in (2, 3):
                r = o["results"][j]
                if r.get("outcome") != "ok" or not _ds.same_data(r["data"], want):
                    ctx.violation("concurrent_loader_got_wrong_result", cid,
                                  {"loader": i, "load": j - 1, "forced_download": flags_used[i], "outcome": r.get("outcome"),
                                   "download_if_missing": missing_ok[i],
                                   "exception": r.get("exc_type"), "message": r.get("exc_msg"), "data": r.get("data")})
                    return
            # the dataset was cached before the round began and is cached after it: a loader that did not ask for a
            # refresh is served from the cache, without a request, whatever the refreshing loaders are doing meanwhile
            if warm and victim is None and not flags_used[i] and o["results"][2].get("requests"):
                ctx.violation("cached_dataset_requested_again_while_another_loader_refreshes_it", cid,
                              {"loader": i, "requests": o["results"][2]["requests"], "forced_by": [q for q, f in enumerate(flags_used) if f]})
                return
        state = _ds.cache_entry_ok(os.path.join(home, "fold", "entry"), url, rows)
        left = _ds.leftovers(home, "fold", "entry")
        if state != "complete":
            ctx.violation("final_cache_entry_not_complete", cid, {"state": state})
            return
        if left and victim is None:
            ctx.violation("temporary_directories_survive_concurrent_loads", cid, {"left": left})
            return
        # interleaving signature from the recorded per-process histories (one monotonic clock for all processes)
        ev = []
        if os.path.exists(log):
            for line in open(log, errors="replace"):
                parts = line.rstrip("\n").split(" ", 2)
                if len(parts) < 3:
                    continue
                t, pid, rest = int(parts[0]), int(parts[1]), parts[2].split("\t")
                kind = rest[0]
                if kind == "request":
                    ev.append((t, pid, "Q"))
                elif kind == "rename":
                    ev.append((t, pid, "R"))
                elif kind == "open_r" and rest[1].endswith("/fold/entry"):
                    ev.append((t, pid, "C"))
                elif kind == "shutil.rmtree":
                    ev.append((t, pid, "X"))
                elif kind == "open_w" and rest[1].endswith("/entry"):
                    ev.append((t, pid, "W"))
        ev.sort()
        rank = {}
        for _t, pid, _k in ev:
            rank.setdefault(pid, len(rank))
        sig = "".join("%s%d" % (kk, rank[pid]) for _t, pid, kk in ev)
        ctx.setadd("interleaving_signatures", "%d:%s" % (k, zlib.crc32(sig.encode())))
        nreq = sum(1 for e in ev if e[2] == "Q")
        nren = sum(1 for e in ev if e[2] == "R")
        ctx.count("concurrent:downloads_observed", nreq)
        ctx.count("concurrent:renames_observed", nren)
        overlapped = False
        # two processes overlapped if some process's rename happened after another process's request and before its rename
        firstq = {}
        lastr = {}
        for t, pid, kk in ev:
            if kk == "Q":
                firstq.setdefault(pid, t)
            if kk == "R":
                lastr[pid] = t
        pids = list(firstq)
        for a in pids:
            for b in pids:
                if a != b and a in lastr and firstq[b] < lastr[a] and firstq[a] < lastr.get(b, 1 << 62):
                    overlapped = True
        if overlapped:
            ctx.count("concurrent:rounds_with_overlapping_downloads")
            ctx.nontriv("concurrent", idx)
        if idx % 8 == 0:
            ctx.sample({"loaders": k, "rows": rows, "gzip": gz, "warm": warm, "forced": flags_used,
                        "downloads": nreq, "renames": nren, "signature": sig[:120]})
    finally:
        shutil.rmtree(scratch, ignore_errors=True)


# ------------------------------------------------------------------------------------------------ (d) flags
def run_flags(ctx):
    scratch = _ds.scratch_root()
    try:
        home = os.path.join(scratch, "home")
        os.mkdir(home)
        steps, plan_ = [], []
        for gz in (False, True):
            for dim in (True, False):
                for deia in (False, True):
                    for present in (False, True):
                        url = URL % ("flags-%d%d%d%d" % (gz, dim, deia, present))
                        steps.append({"op": "clear_home"})
                        steps.append({"op": "net", "default": "good"})
                        if present:
                            steps.append({"op": "remote", "url": url, "dataset_filename": "entry", "folder": "fold", "gz": gz})
                        steps.append({"op": "remote", "url": url, "dataset_filename": "entry", "folder": "fold", "gz": gz,
                                      "flags": {"download_if_missing": dim, "download_even_if_available": deia},
                                      "unpack": bool(dim and deia)})
                        plan_.append((len(steps) - 1, gz, dim, deia, present, url))
                        steps.append({"op": "listing"})
        names = [n for _t, n in _ds.documented_names() if not _ds.is_bundled(n)]
        dname = names[int(np.random.default_rng([ctx.seed, 19, 7]).integers(0, len(names)))]
        steps += [{"op": "clear_home"}, {"op": "net", "default": "timeout"}, {"op": "by_name", "name": dname, "substitute": True}]
        rc, out, err = _ds.run_child({"home": home, "steps": steps}, scratch)
        if out is None:
            raise RuntimeError("flags child failed %s" % err)
        res = out["results"]
        r = res[-1]
        ctx.judged()
        ctx.monitor("c19:flags")
        _ds.pauses_observable(r, 3, 1.0)
        if r.get("outcome") != "exc" or r.get("exc_type") != "TimeoutError" or len(r["requests"]) != 4 or \
                [round(s_, 9) for s_ in r["sleeps"]] != [1.0, 1.0, 1.0]:
            ctx.violation("documented_retry_defaults", {"kind": "flags", "name": dname, "seed": ctx.seed},
                          {"outcome": r.get("outcome"), "exception": r.get("exc_type"), "requests": len(r["requests"]),
                           "sleeps": r["sleeps"], "documented": "n_retries=3, delay=1.0"})
        else:
            ctx.nontriv("flags", "defaults", dname)
        for si, gz, dim, deia, present, url in plan_:
            r = res[si]
            cid = {"kind": "flags", "gz": gz, "download_if_missing": dim, "download_even_if_available": deia,
                   "present": present, "seed": ctx.seed}
            ctx.judged()
            ctx.monitor("c19:flags")
            nreq = len(r["requests"])
            want = _ds.expected_desc(url, 40, unpack=bool(dim and deia))
            detail = {"outcome": r.get("outcome"), "exception": r.get("exc_type"), "requests": nreq}
            if not present and not dim:
                if r.get("outcome") != "exc" or r.get("exc_type") != "OSError" or nreq != 0:
                    ctx.violation("missing_without_download_flag", cid, detail)
                    continue
            else:
                if r.get("outcome") != "ok" or not _ds.same_data(r["data"], want):
                    ctx.violation("flag_combination_wrong_result", cid, detail)
                    continue
                if not present and nreq != 1:
                    ctx.violation("flag_combination_wrong_request_count", cid, dict(detail, expected=1))
                    continue
                if present and dim and deia and nreq != 1:
                    ctx.violation("forced_download_not_performed", cid, detail)
                    continue
                if present and not deia and nreq != 0:
                    ctx.violation("cached_dataset_used_the_network", cid, detail)
                    continue
            ctx.nontriv("flags", gz, dim, deia, present)
        ctx.sample({"flag_table": "2 payload kinds x 4 flag combinations x {absent, present}"})
    finally:
        shutil.rmtree(scratch, ignore_errors=True)


# ------------------------------------------------------------------------------------------------ (e) ordered pairs
def run_pairs(ctx, spec):
    names = [n for _t, n in _ds.documented_names() if not _ds.is_bundled(n)]
    pairs = [(a, b) for a in names for b in names if a != b]
    if spec.get("sample"):
        rng = np.random.default_rng([ctx.seed, 19, 5])
        sel = rng.choice(len(pairs), size=min(spec["sample"], len(pairs)), replace=False)
        pairs = [pairs[i] for i in sorted(sel)]
        # the pairs inside one provider's module are the likeliest to collide: always keep adjacent names
        pairs += [(names[i], names[i + 1]) for i in range(len(names) - 1)] + \
                 [(names[i + 1], names[i]) for i in range(len(names) - 1)]
    mine = [p for i, p in enumerate(pairs) if i % spec["parts"] == spec["part"]]
    scratch = _ds.scratch_root()
    try:
        home = os.path.join(scratch, "home")
        os.mkdir(home)
        for c0 in range(0, len(mine), 200):
            chunk = mine[c0:c0 + 200]
            steps = [{"op": "net", "default": "good"}]
            for a, b in chunk:
                steps += [{"op": "clear_home"}, {"op": "by_name", "name": a, "substitute": True},
                          {"op": "by_name", "name": b, "substitute": True}]
            rc, out, err = _ds.run_child({"home": home, "steps": steps}, scratch, timeout=600)
            if out is None:
                raise RuntimeError("pairs child failed %s" % err)
            res = out["results"]
            for j, (a, b) in enumerate(chunk):
                rb = res[1 + 3 * j + 2]
                cid = {"kind": "pairs", "first": a, "second": b, "seed": ctx.seed}
                ctx.judged()
                ctx.monitor("c19:pairs")
                cap = [_ds.capture_of(rb, b) or {}]
                if rb.get("outcome") != "ok" or len(rb["requests"]) != 1 or \
                        not _ds.same_data(rb["data"], _ds.expected_desc(cap[0].get("url", ""), 40)):
                    ctx.violation("result_depends_on_previously_loaded_dataset", cid,
                                  {"outcome": rb.get("outcome"), "exception": rb.get("exc_type"),
                                   "requests_by_second": rb["requests"], "second_meta": cap[0]})
                    continue
                ctx.nontriv("pair", a, b)
        if mine:
            ctx.sample({"ordered_pair": list(mine[0])})
    finally:
        shutil.rmtree(scratch, ignore_errors=True)


def run(ctx, spec):
    k = spec["kind"]
    if k == "faults":
        run_faults(ctx, spec)
    elif k == "kill":
        run_kill(ctx, spec)
    elif k == "concurrent":
        run_concurrent(ctx, spec)
    elif k == "suspend":
        run_suspend(ctx, spec)
    elif k == "flags":
        run_flags(ctx)
    else:
        run_pairs(ctx, spec)


def replay(ctx, case):
    k = case["kind"]
    if k == "faults":
        scratch = _ds.scratch_root()
        try:
            home = os.path.join(scratch, "home")
            os.mkdir(home)
            nr, seq, fin = case["n_retries"], case["sequence"], case["final"]
            url = URL % ("fs-%d-%s-%s" % (nr, "".join(s[0] for s in seq), fin))
            gz = fin == "gzgood"
            st = {"op": "remote", "url": url, "dataset_filename": "entry", "folder": "fold", "gz": gz,
                  "n_retries": nr, "delay": 0.25, "filename": "dl.csv"}
            steps = [{"op": "net", "scripts": {url: seq + ["good" if gz else fin]}, "default": "good"}, st,
                     {"op": "listing"}, {"op": "net", "default": "good"}, dict(st, n_retries=0)]
            rc, out, err = _ds.run_child({"home": home, "steps": steps}, scratch)
            judge_fault(ctx, nr, seq, fin, out["results"][1], out["results"][2], out["results"][4], home)
        finally:
            shutil.rmtree(scratch, ignore_errors=True)
    elif k == "kill":
        cfg = tuple(case["cfg"])
        scratch = _ds.scratch_root()
        try:
            url = URL % ("kill-" + cfg_name(cfg).replace(",", "_").replace("=", ""))
            rows = cfg[4]
            steps, ti = kill_steps(cfg, url, rows)
            home = os.path.join(scratch, "h")
            os.mkdir(home)
            warm_up(cfg, url, rows, home, scratch)
            if case["mode"] == "syscall":
                prefix = ["strace", "-f", "-qq", "-o", "/dev/null", "-e", "trace=" + case["what"],
                          "-e", "inject=%s:signal=KILL:when=%d" % (case["what"], case["at"])]
                rc, out, err = _ds.run_child({"home": home, "steps": steps}, scratch, prefix=prefix)
            else:
                rc, out, err = _ds.run_child({"home": home, "steps": steps,
                                              "kill": {"events": case["mode"], "at": case["at"], "step": ti}}, scratch)
            judge_after_kill(ctx, case, cfg, url, rows, home, scratch, out is None, out, ti)
        finally:
            shutil.rmtree(scratch, ignore_errors=True)
    elif k == "suspend":
        run_suspend(ctx, {"gz": case.get("gz", False), "part": 0, "parts": 1, "stride": 1,
                          "library_lines_only": ctx.tier != "thorough"})
    elif k == "concurrent":
        concurrent_round(ctx, case["idx"], case.get("rows", 0) > 20000)
    elif k == "flags":
        run_flags(ctx)
    else:
        ctx.seed = case.get("seed", 0)
        run_pairs(ctx, {"part": 0, "parts": 1, "sample": 1})
