"""C03 - matching moves only interior samples, along the documented profile."""
import math
from fractions import Fraction

import numpy as np

from . import _match as M
from .. import tol
from ..core import fp_watch
from ..models import integrate as I

PROPERTY = "C03"
LEVEL = "exploration"
LEVEL_TEXT = ("Post-condition monitor on the displacement (result - input) of the real matching function: samples "
              "outside the fixed span bit-identical, fixed points unmoved (up to rounding of the end weights), "
              "interior displacement of one sign and proportional to 1-(2|x-c|/width)^alpha (least-squares fit, "
              "residual at rounding level), idempotence, and linearity of the kernel in (y, y_ref) checked by "
              "superposition on small rational grids with integer exponents. Sampled, not proved.")
LEVEL_NOTE = ("Trusts the oracle's closed form of the documented weights and its neighbour search; tolerances 1e-9 "
              "relative (conditioning-aware), rounding leakage at fixed points bounded by 64*eps*max(1,alpha)*"
              "(1+|x|/width)*max displacement.")
TECHNIQUE = "runtime post-condition monitor on result-input displacement (profile fit, untouched samples) + metamorphic idempotence / superposition runs"
RULE = ("same generator as C01 (x class x y class x layout x mode x on/off-grid x 2x2 rules x alpha, alpha != 1 in "
        ">= 70% of cases, non-uniform grids) judged by the displacement oracle, each followed by a second matching "
        "of the result (idempotence); plus superposition families on rational grids of <= 8 points with alpha in "
        "{1,2,3}. non-trivial: at least one interval with a displacement above 1e-6 of the data magnitude; distinct "
        "by case fingerprint."
        " Input classes, containers and designation variants as in C01."
        " Round-4 classes: bursts, mixed step sizes and the 'large' kind as in C01."
        " Round-5 classes: as C01 (name identity, both fixed-point parameters, int32 columns)."
        " Round-6 classes: as C01 (compact index arrays, narrow-float exponent)."
        " Round-8 classes: the reference on the very grid of the input together with explicitly designated fixed points."
        " Round-9 classes: as C01 (one interval holding nearly all samples of a huge series)."
        " Round-10 classes: as C01 (datetime64[s] axes).")
REQUIRED_MONITORS = ["c03:post", "c03:profile_intervals", "c03:idempotence", "c03:superposition"]
ASSUMPTIONS = ["admissible inputs as in C01", "affinity of the kernel is sampled by superposition, not proved"]
NSHARDS = 16


def plan(tier, seed):
    n = 12000 if tier == "quick" else 900000
    k = 4000 if tier == "quick" else 180000
    specs = [{"kind": "random", "start": p * (n // NSHARDS), "count": n // NSHARDS} for p in range(NSHARDS)]
    specs += [{"kind": "superpose", "start": p * (k // NSHARDS), "count": k // NSHARDS} for p in range(NSHARDS)]
    big = 1 if tier == "quick" else 30
    specs += [{"kind": "large", "start": p * big, "count": big} for p in range(4 if tier == "quick" else 16)]
    specs += [{"kind": "huge", "start": 2 * p, "count": 2} for p in range(2 if tier == "quick" else 8)]
    return specs


def amplification(case, fi, ri, yvals, yrvals):
    """per-interval bound on how far rounding of the integrals can move samples: scale / weight mass"""
    x = [float(v) for v in case["x"]]
    xr = [float(v) for v in case["x_ref"]]
    gmag = max(max(abs(float(v)) for v in yvals), max(abs(float(v)) for v in yrvals))
    out = []
    for k in range(len(fi) - 1):
        a, b = fi[k], fi[k + 1]
        sc = I.scale(x, yvals, a, b, case["target_rule"]) + I.scale(xr, yrvals, ri[k], ri[k + 1], case["ref_rule"])
        sc += 1e-3 * gmag * (x[b] - x[a])      # rounding leakage from the neighbouring stretches (see C01)
        d = M.weight_mass(x, a, b, case["alpha"], case["target_rule"])
        out.append(sc / d if d > 0 else float("inf"))
    return out


def run_random_case(ctx, kind, idx):
    from traffic_weaver.match import integral_matching_reference_stretch
    rng = ctx.rng(kind, idx)
    case = M.gen_case(rng, max_m=400, weaver=bool(rng.integers(0, 9) == 0), large=kind == "large", huge=kind == "huge")
    if kind == "large":
        ctx.count("large:len(x)*len(x_ref)>2**20" if len(case["x"]) * len(case["x_ref"]) > 2 ** 20 else "large:below_2**20")
    if case["alpha"] == 1.0 and rng.integers(0, 10) < 6:
        case["alpha"] = float(rng.choice([0.25, 0.5, 2.0, 3.7, float(rng.uniform(0.1, 6.0))]))
        if case.get("alpha_arg") is not None:       # keep the exponent's type, with the new value
            case["alpha_arg"] = type(case["alpha_arg"])(case["alpha"])
            case["alpha"] = float(case["alpha_arg"])
    cid = ctx.case_id(kind, idx)
    try:
        with fp_watch(ctx):
            res = M.execute(rng, case)
    except Exception as e:
        if M.resolve(case) is None:
            ctx.discard("inadmissible_after_rounding")
            return
        ctx.judged()
        ctx.exception("raised_on_admissible_input", cid, e, {"case": M.brief(case)})
        return
    r = M.resolve(case)
    if r is None:
        ctx.discard("inadmissible_after_rounding")
        return
    fi, ri = r
    ctx.judged()
    ctx.monitor("c03:post")
    ctx.count("alpha:%s" % ("1" if case["alpha"] == 1.0 else "other"))
    ctx.count("x:%s" % case["xcls"])
    if not M.well_formed(res, len(case["x"])):
        ctx.violation("result_malformed", cid, {"res": res, "case": M.brief(case)})
        return
    resl = [float(v) for v in res]
    if M.judge_c03(ctx, cid, case, resl, fi, ri):
        ctx.nontriv(kind, idx)
    # (d) idempotence: matching the matched function changes nothing (beyond rounding)
    try:
        res2 = integral_matching_reference_stretch(case["x"], res, case["x_ref"], case["y_ref"], **M.call_args(case))
    except Exception as e:
        ctx.exception("idempotence:raised", cid, e, {"case": M.brief(case)})
        return
    ctx.monitor("c03:idempotence")
    amp = amplification(case, fi, ri, resl, [float(v) for v in case["y_ref"]])
    rel = tol.rel_for(case["x"])
    # the first result is input + stretch: it carries rounding of the INPUT's magnitude (cancellation), which the
    # second matching then legitimately corrects
    mag = max(max(abs(v) for v in resl), max(abs(float(v)) for v in case["y"]))
    for k in range(len(fi) - 1):
        lim = rel * (amp[k] + mag) + 1e-300
        for i in range(fi[k], fi[k + 1] + 1):
            if abs(float(res2[i]) - resl[i]) > lim:
                ctx.violation("not_idempotent", cid, {"index": i, "first": resl[i], "second": float(res2[i]),
                                                      "limit": lim, "case": M.brief(case)})
                return
    if idx % 3000 == 11:
        ctx.sample(M.brief(case))


def run_superpose_case(ctx, kind, idx):
    """res(a*(y1,r1) + b*(y2,r2)) == a*res(y1,r1) + b*res(y2,r2) on a small rational grid, integer alpha"""
    from traffic_weaver.match import integral_matching_reference_stretch
    rng = ctx.rng(kind, idx)
    m = int(rng.integers(3, 9))
    den = int(rng.choice([1, 2, 3, 4, 5, 8]))
    x = np.cumsum(rng.integers(1, 5, m)).astype(float) / den
    idxs = M._pick_fixed(rng, m)
    mode = ["search", "positions", "indices"][int(rng.integers(0, 3))]
    case = {"x": x, "x_ref": np.array([x[i] for i in idxs]), "idx": idxs, "mode": mode,
            "strategy": ["closest", "lower", "higher"][int(rng.integers(0, 3))], "on_grid": True, "extras": 0,
            "alpha": float(rng.integers(1, 4)), "target_rule": M.RULES[int(rng.integers(0, 2))],
            "ref_rule": M.RULES[int(rng.integers(0, 2))], "xcls": "rational", "ycls": "int", "m": m, "K": len(idxs),
            "weaver": False}
    y1 = rng.integers(-9, 10, m).astype(float)
    y2 = rng.integers(-9, 10, m).astype(float)
    r1 = rng.integers(-9, 10, len(idxs)).astype(float)
    r2 = rng.integers(-9, 10, len(idxs)).astype(float)
    a, b = float(rng.normal(0, 2)), float(rng.normal(0, 2))
    cid = ctx.case_id(kind, idx)
    kw = M.call_args(case)
    try:
        f1 = integral_matching_reference_stretch(x, y1, case["x_ref"], r1, **kw)
        f2 = integral_matching_reference_stretch(x, y2, case["x_ref"], r2, **kw)
        f3 = integral_matching_reference_stretch(x, a * y1 + b * y2, case["x_ref"], a * r1 + b * r2, **kw)
    except Exception as e:
        ctx.judged()
        ctx.exception("superposition:raised", cid, e, {"case": M.brief(case)})
        return
    ctx.judged()
    ctx.monitor("c03:superposition")
    case["y"], case["y_ref"] = y1, r1
    r = M.resolve(case)
    if r is None:
        ctx.discard("inadmissible")
        return
    fi, ri = r
    amp = amplification(case, fi, ri, list(np.abs(a * y1) + np.abs(b * y2)), list(np.abs(a * r1) + np.abs(b * r2)))
    want = a * f1 + b * f2
    mag = float(np.max(np.abs(a * f1) + np.abs(b * f2))) + 1e-300
    rel = tol.rel_for(x)
    worst = 0.0
    for k in range(len(fi) - 1):
        lim = rel * (amp[k] + mag)
        for i in range(fi[k], fi[k + 1] + 1):
            e = abs(float(f3[i]) - float(want[i]))
            worst = max(worst, e / (amp[k] + mag))
            if e > lim:
                case["y"], case["y_ref"] = y1, r1
                ctx.violation("not_linear_in_values_and_targets", cid,
                              {"index": i, "got": float(f3[i]), "want": float(want[i]), "a": a, "b": b, "y2": y2,
                               "r2": r2, "limit": lim, "case": M.brief(case)})
                return
    ctx.track_worst("c03_superposition_rel", worst)
    if np.any(f1 != y1) or np.any(f2 != y2):
        ctx.nontriv(kind, idx)
    if idx % 2000 == 5:
        ctx.sample({"superposition": {"x": x, "fixed": idxs, "alpha": case["alpha"], "mode": mode, "a": a, "b": b}})


def run(ctx, spec):
    f = run_superpose_case if spec["kind"] == "superpose" else run_random_case
    for idx in range(spec["start"], spec["start"] + spec["count"]):
        f(ctx, spec["kind"], idx)


def replay(ctx, case):
    (run_superpose_case if case["kind"] == "superpose" else run_random_case)(ctx, case["kind"], case["idx"])
