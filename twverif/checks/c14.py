"""C14 - trend, shift, scale and normalise are exact pointwise maps."""
import numpy as np

from . import _rfa as R
from . import _weaver_ops as W
from .. import callform, gen, tol
from ..core import fp_watch

from . import _jobs  # noqa: E402

PROPERTY = "C14"
LEVEL = "exploration"
LEVEL_TEXT = ("Post-condition monitor on process.trend / linear_trend / normalize and Weaver.trend / shift_* / scale_* / "
              "normalize_*: the result must equal the documented pointwise map sample by sample (y_i + f(x_i) or "
              "y_i + f(x_i / (x_last - x_first)); x+s, c*x as single IEEE operations; normalise = increasing affine map "
              "sending min to min_val exactly and max to max_val), x untouched by trend, zero trend = identity, trends "
              "add up, order and relative spacing preserved by normalise. Sampled, with abscissae of non-zero origin.")
LEVEL_NOTE = ("Trend values are compared with one rounding of slack (1e-12 relative); shift / scale bit for bit; "
              "normalise at 1e-9 relative to the target range.")
TECHNIQUE = "runtime post-condition monitor vs pointwise definitional oracle + additivity / order metamorphic runs; thread-isolation monitor (concurrent vs sequential answers, first-use rounds with sys.monitoring yield injection)"
RULE = ("case = series 2..60 points with x of non-zero origin in >= 80% x trend family {polynomial to degree 3, sinusoid, "
        "constant, callable returning numpy scalar} x normalized flag, or shift / scale / normalise with random "
        "arguments, through functions (list / int / array containers) and through the Weaver. non-trivial: the map is "
        "not the identity on the series; distinct by case index."
        " Also: trend / normalise through the Weaver after random histories and after negative scales, integer-dtype data (int32, int64, uint8, uint16) with integer-typed target ranges, target ranges ending exactly at 0, documented defaults by omission."
        " Round-4 classes: the callable families of C09, flags / bounds positionally or by name, series of 1001..1800 samples."
        " Round-5 classes: trend callables returning the int 0 first and fractions later, signed narrow-integer data spanning its type for normalise, a 'threads' kind."
        " Round-6 classes: bare NumPy ufunc objects as trend callables, target ranges given as narrow NumPy integer scalars."
        " Round-7 classes: numpy.poly1d objects of degree 0..3 (a constant polynomial is falsy) as trend callables."
        " Round-8 classes: numpy.polynomial objects (power / Chebyshev basis, with and without domain mapping) as trend callables; chains of whole-number unit conversions by small NumPy integers (RuntimeWarning = violation)."
        " Round-9 classes: trend callables that answer a number with a 0-d array (SciPy CubicSpline, np.vectorize, np.where, np.asarray)."
        " Round-10 classes: series whose whole span is 1..3 units in the last place (normalise).")
REQUIRED_MONITORS = ["threads:domain", "threads:first_use:domain", "threads:first_use_yields_injected", "c14:trend", "c14:trend_additive", "c14:shift_scale", "c14:normalize"]
ASSUMPTIONS = ["scale != 0, min_val < max_val, non-constant array for normalise"]
NSHARDS = 16


def plan(tier, seed):
    return _plan(tier, seed) + _jobs.plan(tier)


def _plan(tier, seed):
    n = 16000 if tier == "quick" else 1000000
    return [{"kind": "random", "start": p * (n // NSHARDS), "count": n // NSHARDS} for p in range(NSHARDS)] + \
        [{"kind": "huge", "start": 5 * p, "count": 5} for p in range(2 if tier == "quick" else 8)]


def gen_trend(rng, x, y, normalized):
    return W.gen_trend(rng, x, y, normalized)


def run_case(ctx, kind_, idx):
    from traffic_weaver import Weaver
    from traffic_weaver import process
    rng = ctx.rng(kind_, idx)
    cid = ctx.case_id(kind_, idx)
    x, y, meta = R.gen_series(rng, 2, 60, ties_share=0.2, long_share=R.LONG_SHARE, real_valued=kind_ == "huge",
                              force_m=gen.huge_size(rng) if kind_ == "huge" else None)
    if abs(x[0]) < 1e-12 and rng.integers(0, 5):
        x = x + float(rng.choice([5.0, -3.0, 100.0, float(rng.normal(0, 20))]))
    which = ["trend", "trend", "trend_additive", "shift_scale", "normalize"][int(rng.integers(0, 5))]
    if kind_ == "huge":
        which = ["trend", "normalize", "shift_scale", "trend", "trend_additive"][idx % 5]
    via_weaver = bool(rng.integers(0, 2))
    info = {"relation": which, "via_weaver": via_weaver, "m": len(x), "xcls": meta["xcls"], "ycls": meta["ycls"],
            "x0": float(x[0])}
    if len(x) <= 10:
        info.update({"x": x, "y": y})
    ctx.count("relation:%s" % which)
    mag = float(np.max(np.abs(y))) or 1.0
    try:
        with fp_watch(ctx):
            if which == "trend":
                normalized = bool(rng.integers(0, 2))
                td = gen_trend(rng, x, y, normalized)
                f = W.trend_fun(td)
                zero = bool(rng.integers(0, 10) == 0)
                if zero:
                    f = (lambda t: 0.0)
                    td = {"family": "zero", "coef": []}
                info.update({"trend": td, "normalized": normalized})
                use_linear = td["family"] == "npscalar" and not via_weaver and bool(rng.integers(0, 2))
                omit = (not normalized) and bool(rng.integers(0, 2))      # documented default: normalized=False
                info["normalized_argument_omitted"] = omit
                if via_weaver:
                    wv = Weaver(x.copy(), y.copy())
                    if rng.integers(0, 2):
                        info["history"] = W.random_history(rng, wv, 1, 3, allow=W.DOMAIN_OPS, max_len=120)
                        x, y = (np.array(a, dtype=float).copy() for a in wv.get())
                        if normalized and len(x) < 2:
                            return
                    wv.trend(f) if omit else callform.call(rng, wv.trend, "Weaver.trend", [f], {"normalized": normalized}, p_pos=0.4)
                    gx, gy = wv.get()
                elif use_linear:
                    a_lin = td["coef"][0]
                    f = (lambda t: a_lin * t)
                    info["linear_trend_a"] = a_lin
                    xin, _k = gen.as_container(rng, x)
                    yin, _k2 = gen.as_container(rng, y)
                    gx, gy = process.linear_trend(xin, yin, a_lin) if omit else \
                        callform.call(rng, process.linear_trend, "process.linear_trend", [xin, yin, a_lin],
                                      {"normalized": normalized}, p_pos=0.4)
                else:
                    xin, _k = gen.as_container(rng, x)
                    yin, _k2 = gen.as_container(rng, y)
                    gx, gy = process.trend(xin, yin, f) if omit else \
                        callform.call(rng, process.trend, "process.trend", [xin, yin, f], {"normalized": normalized}, p_pos=0.4)
                ctx.judged()
                ctx.monitor("c14:trend")
                span = float(x[-1] - x[0])
                want = np.array([float(y[i]) + float(f(float(x[i]) / span if normalized else float(x[i])))
                                 for i in range(len(x))])
                if not (isinstance(gy, np.ndarray) and gy.shape == want.shape and np.array_equal(np.asarray(gx, float), x)):
                    ctx.violation("trend_changed_x_or_shape", cid, {"case": info})
                    return
                sc = np.maximum(np.abs(want), np.abs(y)) + 1e-300
                if not np.all(np.abs(gy - want) <= 1e-12 * sc + 1e-12 * mag):
                    i = int(np.argmax(np.abs(gy - want)))
                    ctx.violation("trend_value", cid, {"i": i, "x_i": float(x[i]), "got": float(gy[i]),
                                                       "want": float(want[i]), "case": info})
                    return
                if zero and not np.array_equal(gy, y):
                    ctx.violation("zero_trend_not_identity", cid, {"case": info})
                    return
                if not zero:
                    ctx.nontriv("c14", idx)
            elif which == "trend_additive":
                normalized = bool(rng.integers(0, 2))
                t1, t2 = gen_trend(rng, x, y, normalized), gen_trend(rng, x, y, normalized)
                f1, f2 = W.trend_fun(t1), W.trend_fun(t2)
                info.update({"trend1": t1, "trend2": t2, "normalized": normalized})
                _x, a1 = process.trend(x.copy(), y.copy(), f1, normalized)
                _x, a12 = process.trend(x.copy(), a1, f2, normalized)
                _x, s12 = process.trend(x.copy(), y.copy(), lambda t: f1(t) + f2(t), normalized)
                _x, a2 = process.trend(x.copy(), y.copy(), f2, normalized)
                _x, a21 = process.trend(x.copy(), a2, f1, normalized)
                ctx.judged()
                ctx.monitor("c14:trend_additive")
                sc = np.abs(y) + np.abs(a1 - y) + np.abs(a2 - y) + 1e-300
                if not np.all(np.abs(a12 - s12) <= 1e-9 * sc) or not np.all(np.abs(a12 - a21) <= 1e-9 * sc):
                    ctx.violation("trends_do_not_add_up", cid, {"case": info})
                    return
                ctx.nontriv("c14", idx)
            elif which == "shift_scale":
                fpw = fp_watch(ctx)
                fpw.__enter__()
                wv = Weaver(x.copy(), y.copy())
                sx = float(rng.normal(0, 10)) if rng.integers(0, 2) else int(rng.integers(-5, 6))
                sy = float(rng.normal(0, 10))
                cx = float(rng.choice([2.0, 0.5, 60.0, -1.0, -2.5, float(rng.lognormal(0, 1))]))     # any non-zero scale
                cy = float(rng.choice([2.0, -1.5, 0.1, float(rng.normal(0, 3)) or 1.0]))
                order = list(rng.permutation(4))
                ex, ey = x.copy(), y.copy()
                ops = []
                chain = bool(rng.integers(0, 4) == 0)
                for o in order:
                    if chain and o >= 2:
                        continue
                    if o == 0:
                        wv.shift_x(sx); ex = ex + sx; ops.append(["shift_x", sx])
                    elif o == 1:
                        wv.shift_y(sy); ey = ey + sy; ops.append(["shift_y", sy])
                    elif o == 2:
                        wv.scale_x(cx); ex = ex * cx; ops.append(["scale_x", cx])
                    else:
                        wv.scale_y(cy); ey = ey * cy; ops.append(["scale_y", cy])
                if chain:
                    # a chain of unit conversions by whole-number factors held in small NumPy integer types (x 60 x 60
                    # x 24, x 8 x 125): every factor fits its type, their product does not
                    for _ in range(int(rng.integers(2, 5))):
                        dt = [np.int8, np.uint8, np.int16, np.int8][int(rng.integers(0, 4))]
                        c = dt(int(rng.choice([60, 24, 100, 125, 16, 8, 12])))
                        ax = "x" if rng.integers(0, 2) else "y"
                        getattr(wv, "scale_" + ax)(c)
                        if ax == "x":
                            ex = ex * float(c)
                        else:
                            ey = ey * float(c)
                        ops.append(["scale_" + ax, int(c), np.dtype(dt).name])
                info["ops"] = ops
                gx, gy = wv.get()
                fpw.__exit__(None, None, None)
                ctx.judged()
                ctx.monitor("c14:shift_scale")
                if fpw.tripped and np.all(np.isfinite(ex)) and np.all(np.isfinite(ey)):
                    # what a caller running with warnings as errors gets instead of the shifted / scaled series
                    ctx.violation("floating_point_warning_on_ordinary_input", cid, {"warnings": fpw.tripped[:3], "case": info})
                    return
                if not (np.array_equal(gx, ex) and np.array_equal(gy, ey)):
                    ctx.violation("shift_scale_not_elementwise", cid, {"got": [gx, gy], "want": [ex, ey], "case": info})
                    return
                ctx.nontriv("c14", idx)
            else:
                lo = float(rng.choice([0.0, -1.0, 5.0, float(rng.normal(0, 10))]))
                hi = lo + float(rng.choice([1.0, 10.0, 24.0, float(rng.lognormal(0, 1.5))]))
                defaults = (not via_weaver) and rng.integers(0, 5) == 0       # documented defaults: range [0, 1]
                if defaults:
                    lo, hi = 0.0, 1.0
                target = "x" if rng.integers(0, 2) else "y"
                a = x if target == "x" else y
                if float(np.min(a)) == float(np.max(a)):
                    a = a + np.arange(len(a))
                int_case = (not defaults) and rng.integers(0, 5) == 0
                if int_case:
                    # integer-typed data with an integer-typed target range (counters -> percent, ns -> ms): every
                    # intermediate product must be formed in floating point
                    dt = [np.int32, np.int64, np.uint8, np.uint16, np.int8, np.int16, np.int32][int(rng.integers(0, 7))]
                    top = int(min(np.iinfo(dt).max, 4 * 10 ** 11))
                    # signed storage used over its whole range (deviations from a set point, signed deltas): the RANGE
                    # max - min does not fit the type
                    bottom = int(np.iinfo(dt).min) if np.iinfo(dt).min < 0 and dt != np.int64 and rng.integers(0, 2) else 0
                    vals = np.unique(rng.integers(bottom, top, len(a), dtype=np.int64, endpoint=True))
                    if bottom < 0:
                        vals = np.unique(np.concatenate([vals, [bottom + int(rng.integers(0, 5)), top - int(rng.integers(0, 5))]]))[:max(len(a), 2)]
                    if len(vals) < 2:
                        vals = np.array([bottom, top], dtype=np.int64)
                    a = (np.sort(vals) if target == "x" else rng.permutation(vals)).astype(dt)
                    lo = int(rng.choice([0, -5, 1]))
                    hi = lo + int(rng.choice([100, 10 ** 5, 10 ** 9, 255]))
                    if rng.integers(0, 3) == 0:
                        # the target range taken from another narrow integer array (its .min() / .max()): NumPy scalars
                        # whose difference does not fit their type
                        bt = [np.int8, np.int16][int(rng.integers(0, 2))]
                        lo, hi = bt(np.iinfo(bt).min + int(rng.integers(0, 30))), bt(np.iinfo(bt).max - int(rng.integers(0, 30)))
                        info["bounds_type"] = np.dtype(bt).name
                    info["int_case"] = str(np.dtype(dt))
                    if target == "x":
                        y = y[:len(a)] if len(y) >= len(a) else np.resize(y, len(a))
                    else:
                        x = np.arange(len(a), dtype=float)
                ulp_case = (not int_case) and rng.integers(0, 12) == 0
                if ulp_case:
                    # a series whose whole span is a few units in the last place (a counter at 2**52 ticking by one, two
                    # time stamps one ulp apart): distinct end points, however close, still map to the ends of the range
                    base = float(rng.choice([2.0 ** 52, 1.7e9, 1.0, -3.0, 2.0 ** 52 + 7.0, 1e-9]))
                    k_ = np.unique(np.concatenate([[0], rng.integers(1, 4, int(rng.integers(1, 4)))]))
                    vals = [base]
                    for _s in range(int(k_[-1])):
                        vals.append(float(np.nextafter(vals[-1], np.inf)))
                    a = np.array([vals[int(v)] for v in k_])
                    if target == "y":
                        a = rng.permutation(a)
                        x = np.arange(len(a), dtype=float)
                    else:
                        y = np.resize(y, len(a))
                    info["span_in_ulps"] = int(k_[-1])
                    info["base"] = base
                info.update({"min_val": lo, "max_val": hi, "target": target})
                if via_weaver:
                    wv = Weaver(x.copy() if target == "y" else a.copy(), a.copy() if target == "y" else y.copy())
                    if rng.integers(0, 2) and not ulp_case:
                        # a non-zero (possibly negative) scale first: normalise must still be the INCREASING affine map
                        c = float(rng.choice([-2.0, -0.5, 3.0, -1.0]))
                        getattr(wv, "scale_" + target)(c)
                        a = a * c
                        info["scaled_first"] = c
                    callform.call(rng, getattr(wv, "normalize_" + target), "Weaver.normalize_" + target, [lo, hi])
                    g = wv.get()[0 if target == "x" else 1]
                else:
                    ain, _k = (a, "as is") if int_case else gen.as_container(rng, a)
                    g = process.normalize(ain) if defaults else \
                        callform.call(rng, process.normalize, "process.normalize", [ain], {"min_val": lo, "max_val": hi}, p_pos=0.5)
                ctx.judged()
                ctx.monitor("c14:normalize")
                lo, hi = float(lo), float(hi)               # the model's arithmetic is floating point
                rng_t = hi - lo
                if not (isinstance(g, np.ndarray) and g.shape == a.shape):
                    ctx.violation("normalize_shape", cid, {"case": info})
                    return
                imin, imax = int(np.argmin(a)), int(np.argmax(a))
                if g[imin] != lo:
                    ctx.violation("normalize_min_not_exact", cid, {"got": float(g[imin]), "want": lo, "case": info})
                    return
                if not abs(float(g[imax]) - hi) <= 1e-9 * max(abs(lo), abs(hi), rng_t):
                    ctx.violation("normalize_max", cid, {"got": float(g[imax]), "want": hi, "case": info})
                    return
                af = np.asarray(a, dtype=float)             # the model works in floating point whatever the storage type
                want = (af - af.min()) / (af.max() - af.min()) * rng_t + lo
                if not np.max(np.abs(g - want)) <= 1e-9 * max(abs(lo), abs(hi), rng_t):
                    ctx.violation("normalize_not_affine", cid, {"case": info})
                    return
                o = np.argsort(a, kind="stable")
                if np.any(np.diff(g[o]) < -1e-12 * rng_t):
                    ctx.violation("normalize_order", cid, {"case": info})
                    return
                ctx.nontriv("c14", idx)
    except Exception as e:
        ctx.judged()
        ctx.exception("raised_on_admissible_input", cid, e, {"case": info})
        return
    if idx % 2500 == 15:
        ctx.sample(info)


def run(ctx, spec):
    if spec["kind"] in ("threads", "threads_cold"):      # concurrent independent requests vs their sequential answers
        return _jobs.run(ctx, spec, ["domain"])
    for idx in range(spec["start"], spec["start"] + spec["count"]):
        run_case(ctx, spec["kind"], idx)


def replay(ctx, case):
    if case["kind"] in ("threads", "threads_cold"):
        return _jobs.run_case(ctx, ["domain"], case["idx"], cold=case["kind"] == "threads_cold")
    run_case(ctx, case["kind"], case["idx"])
