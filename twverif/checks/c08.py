"""C08 - reference series tracks domain transformations through any history."""
import itertools

import numpy as np

from . import _rfa as R
from .. import callform, tol
from ..core import fp_watch
from ..models import domain_ops as D
from ..models import integrate as I

PROPERTY = "C08"
LEVEL = "exploration"
LEVEL_TEXT = ("Shadow-model monitor of the real Weaver: an independent model of the ten domain operations is advanced "
              "in lock-step with the real object and compared after EVERY operation of a history (working == "
              "reference bit for bit while not reshaped; both equal to the model: bit for bit for shift / scale / "
              "truncate / append, to rounding for normalise / repeat; reshaping operations must leave the reference "
              "bit-identical). Exhaustive over all histories of length <= 3 on a 27-letter alphabet (3 base series in "
              "the thorough tier), random histories up to length 8 interleaved with reshaping operations, each "
              "followed by the recreate + match pipeline judged against the shadow reference, and a commutation pair.")
LEVEL_NOTE = ("Trusts the 90-line docstring-derived model (models/domain_ops.py) which uses the same IEEE operations "
              "on its own copy of the data; after a rounding-level comparison the model is re-synchronised to the "
              "verified real state so that later exact comparisons stay meaningful.")
TECHNIQUE = "shadow-model state monitor on the real Weaver after every step of enumerated and random operation histories"
RULE = ("exhaustive: all sequences of length 0..3 over 27 letters (10 domain operations x 2-5 argument choices, truncation bounds as ratios, absolute values and mixed) per "
        "base series; random: length 0..8 with random admissible arguments, 35% interleaved reshaping operations, then "
        "random strategy / n / rule pipeline and a shift/scale commutation pair. non-trivial: history contains >= 1 "
        "domain operation that changed the series; distinct by (base, letter sequence) or case index."
        " Round-4 classes: truncation bounds as ratio / absolute / mixed, flags positionally or by keyword, every operation in a drawn call form; the pipeline oracle includes the unmatched input the stretch started from."
        " Round-6 classes: a 'default_grid' kind - Weaver(None, y) on 2200..6000 samples rescaled / shifted with plain Python ints (x 10**6, + 1.7e9)."
        " Round-7 classes: repeat counts of 257..399 on short series."
        " Round-8 classes: ratio / value bounds of truncate_by_value as 0-d / 1-element arrays (mutable objects that are applied twice).")
REQUIRED_MONITORS = ["c08:default_grid", "c08:step", "c08:reshape_keeps_reference", "c08:pipeline", "c08:commute"]
ASSUMPTIONS = ["operations are applied with admissible arguments only (inadmissible letters end an enumerated history)",
               "histories longer than 8 and arbitrary argument reals are sampled"]
NSHARDS = 16

ALPHABET = [
    ("append_one_sample", ()), ("append_one_sample", (True,)),      # () = documented default (not periodic)
    ("shift_x", (2.5,)), ("shift_x", (-7,)),
    ("shift_y", (1.25,)), ("shift_y", (-3,)),
    ("scale_x", (3.0,)), ("scale_x", (0.1,)),
    ("scale_y", (-2.0,)), ("scale_y", (0.3,)),
    ("normalize_x", (0.0, 1.0)), ("normalize_x", (-5.0, 20.0)),
    ("normalize_y", (0.0, 1.0)), ("normalize_y", (2.0, 3.5)), ("normalize_y", (0, 100000)), ("normalize_x", (0, 10 ** 6)),
    ("repeat", (2,)), ("repeat", (3,)),
    ("truncate_by_value", (0.2, 0.8, True, True)), ("truncate_by_value", (0.0, 0.55, True, True)),
    ("truncate_by_value", (0.3, 1.0, True, True)),
    ("truncate_by_value", (0.1, 6.0, True, False)), ("truncate_by_value", (1.0, 0.9, False, True)),   # mixed bounds
    ("truncate_by_index", (1, None)), ("truncate_by_index", (0, 4)), ("truncate_by_index", (2, 6)),
    ("truncate_by_index", (0, -1)),                                   # drop the (incomplete) last sample
]
BASES = [
    (np.array([0.0, 1.0, 2.0, 4.0, 5.0, 7.5, 8.0, 11.0]), np.array([3.0, 1.0, 4.0, 1.0, 5.0, 9.0, 2.0, 6.0])),
    (np.arange(5, 12, dtype=np.int64), np.array([2, 2, 7, 1, 8, 2, 8], dtype=np.int64)),
    (np.array([-3.3, -1.1, 0.7, 1.9, 2.0, 6.25]), np.array([-0.5, 0.25, 0.125, -4.0, 8.0, 0.0])),
    # narrow integer storage (seconds of a day, small counters): integer-typed requests must not be computed in it
    (np.array([0, 3600, 7200, 10800, 18000, 21600, 36000], dtype=np.int32),
     np.array([210, 205, 290, 201, 300, 220, 280], dtype=np.int16)),
]


def plan(tier, seed):
    nb = 1 if tier == "quick" else 4
    bases = [0] if tier == "quick" else list(range(nb))
    specs = [{"kind": "exhaustive", "base": b, "part": p, "parts": 8} for b in bases for p in range(8)]
    if tier == "quick":      # the narrow-integer base with a sample of the histories
        specs += [{"kind": "exhaustive", "base": 3, "part": p, "parts": 32} for p in range(4)]
    n = 6000 if tier == "quick" else 400000
    specs += [{"kind": "random", "start": p * (n // NSHARDS), "count": n // NSHARDS} for p in range(NSHARDS)]
    k = 60 if tier == "quick" else 4000
    specs += [{"kind": "default_grid", "start": p * (k // 2), "count": k // 2} for p in range(2)]
    return specs


def exhaustive(tier, merged):
    L = len(ALPHABET)
    return ("all operation sequences of length 0..3 over the %d-letter alphabet (%d per base series) on %d base "
            "series%s" % (L, 1 + L + L * L + L ** 3, 1 if tier == "quick" else 4, " (+ 1/8 of them on the narrow-integer base)" if tier == "quick" else ""))


def same_bits(a, b):
    return isinstance(a, np.ndarray) and a.shape == b.shape and a.dtype == b.dtype and np.array_equal(a, b)


def close_arr(a, b):
    a = np.asarray(a, dtype=float)
    b = np.asarray(b, dtype=float)
    if a.shape != b.shape:
        return False
    sc = max(float(np.max(np.abs(b))) if b.size else 0.0, 1e-300)
    rel = 1e-9 + (tol.cond_x(b) if b.size > 1 and np.all(np.diff(b) > 0) else 0.0)
    return bool(np.all(np.abs(a - b) <= rel * sc))


class Shadow:
    """model state of the reference series (and of the working series while it has not been reshaped)"""

    def __init__(self, x, y):
        self.x = np.asarray(x).copy()
        self.y = np.asarray(y).copy()
        self.reshaped = False
        self.exact = True

    def step(self, op, args):
        self.x, self.y = D.apply(op, args, self.x, self.y)
        if op not in D.EXACT_OPS:
            self.exact = False


def call(wv, op, args, rng=None):
    """without an rng (enumerated histories) everything is passed positionally in the documented order; with one the
    call form is drawn: optional parameters by keyword or positionally, mandatory ones by position or by name"""
    if rng is None:
        getattr(wv, op)(*args)
        return
    mand, opt = callform.DOC["Weaver." + op]
    if op == "truncate_by_value" and rng.integers(0, 4) == 0:
        # bounds computed with NumPy: 0-d / 1-element arrays - mutable objects that the object applies twice (to the
        # working series and to the reference) and must therefore leave alone
        wrap = (lambda v: np.asarray(float(v))) if rng.integers(0, 2) else (lambda v: np.array([float(v)]))
        args = [wrap(args[0]), wrap(args[1])] + list(args[2:])
    kw = {k: v for (k, _d), v in zip(opt, args[len(mand):])}
    callform.call(rng, getattr(wv, op), "Weaver." + op, list(args[:len(mand)]), kw, p_pos=0.4, p_kw=0.2)


def check_state(ctx, cid, wv, sh, op, args, hist):
    """compare the real object with the shadow after a domain operation; returns False on violation"""
    ctx.monitor("c08:step")
    rx, ry = wv.get_reference()
    x, y = wv.get()
    detail = {"after": [op, list(args)], "history": hist}
    for name, a in (("reference_x", rx), ("reference_y", ry)):
        if not isinstance(a, np.ndarray) or a.ndim != 1:
            ctx.violation("reference_malformed", cid, dict(detail, which=name, type=type(a).__name__))
            return False
    if not sh.reshaped and not (same_bits(x, rx) and same_bits(y, ry)):
        ctx.violation("working_differs_from_reference", cid, dict(detail, x=x, y=y, ref_x=rx, ref_y=ry))
        return False
    if sh.exact:
        ok = np.array_equal(rx, sh.x) and np.array_equal(ry, sh.y)
    else:
        ok = close_arr(rx, sh.x) and close_arr(ry, sh.y)
    if not ok:
        ctx.violation("reference_differs_from_model", cid, dict(detail, ref_x=rx, ref_y=ry, model_x=sh.x,
                                                               model_y=sh.y, exact=sh.exact))
        return False
    if not sh.exact:
        sh.x, sh.y = np.array(rx).copy(), np.array(ry).copy()      # re-synchronise to the verified state
    return True


def run_history(ctx, cid, base, letters):
    from traffic_weaver import Weaver
    x0, y0 = base
    wv = Weaver(x0.copy(), y0.copy())
    sh = Shadow(x0, y0)
    hist = []
    changed = False
    if not check_state(ctx, cid, wv, sh, "<init>", (), hist):
        return None
    for op, args in letters:
        if not D.admissible(op, args, sh.x, sh.y):
            ctx.count("exhaustive:inadmissible_suffix_cut")
            break
        hist.append([op, list(args)])
        try:
            call(wv, op, args)
        except Exception as e:
            ctx.exception("domain_op_raised", cid, e, {"history": hist})
            return None
        before = (sh.x, sh.y)
        sh.step(op, args)
        if not check_state(ctx, cid, wv, sh, op, args, hist):
            return None
        if before[0].shape != sh.x.shape or not (np.array_equal(before[0], sh.x) and np.array_equal(before[1], sh.y)):
            changed = True
    return changed


def run_exhaustive(ctx, spec):
    base = BASES[spec["base"]]
    j = 0
    for L in range(0, 4):
        for seq in itertools.product(range(len(ALPHABET)), repeat=L):
            j += 1
            if j % spec["parts"] != spec["part"]:
                continue
            cid = {"kind": "exhaustive", "base": spec["base"], "letters": list(seq), "seed": ctx.seed}
            ctx.judged()
            ch = run_history(ctx, cid, base, [ALPHABET[i] for i in seq])
            if ch:
                ctx.nontriv("ex", spec["base"], seq)
            if j % 3001 == 5:
                ctx.sample({"base": spec["base"], "history": [[ALPHABET[i][0], list(ALPHABET[i][1])] for i in seq]})


# ----------------------------------------------------------------------------------------------- random histories
DOMAIN = ["append_one_sample", "shift_x", "shift_y", "scale_x", "scale_y", "normalize_x", "normalize_y", "repeat",
          "truncate_by_value", "truncate_by_index"]
RESHAPE = ["recreate", "match", "interpolate", "smooth", "trend", "noise"]


def random_domain_args(rng, op, x, y):
    n = len(x)
    if op == "append_one_sample":
        return () if rng.integers(0, 3) == 0 else (bool(rng.integers(0, 2)),)
    if op in ("shift_x", "shift_y"):
        return (float(rng.choice([1.0, -2.5, float(rng.normal(0, 10)), 3])) if rng.integers(0, 4) else int(rng.integers(-5, 6)),)
    if op == "scale_x":
        return (float(rng.choice([2.0, 0.5, 60.0, float(rng.lognormal(0, 1))])),)
    if op == "scale_y":
        return (float(rng.choice([2.0, -1.0, 0.25, float(rng.normal(0, 3)) or 1.0])),)
    if op in ("normalize_x", "normalize_y"):
        if rng.integers(0, 4) == 0:
            return (0, int(rng.choice([7, 100, 10 ** 6, 86_400_000])))       # integer-typed bounds
        lo = float(rng.choice([0.0, -1.0, float(rng.normal(0, 5))]))
        return (lo, lo + float(rng.choice([1.0, 10.0, float(rng.lognormal(0, 1))])))
    if op == "repeat":
        if n <= 12 and rng.integers(0, 12) == 0:
            return (int(rng.integers(257, 400)),)         # a year of copies of one day: more copies than a byte counts
        return (int(rng.integers(1, 4)),)
    if op == "truncate_by_value":
        i = int(rng.integers(0, n - 1))
        j = int(rng.integers(i + 1, n))
        t = int(rng.integers(0, 5))
        if t == 0:      # exactly on samples
            return (float(x[i]), float(x[j]), False, False)
        if t == 1:      # strictly inside gaps
            l = float(x[i]) + 0.37 * float(x[i + 1] - x[i]) if i + 1 < n else float(x[i])
            r = float(x[j]) - 0.41 * float(x[j] - x[j - 1])
            if not l < r:
                return (float(x[i]), float(x[j]), False, False)
            return (l, r, False, False)
        if t == 2:      # beyond the data on either side
            return (float(x[0]) - 1.0, float(x[j]), False, False) if rng.integers(0, 2) else \
                (float(x[i]), float(x[-1]) + 1.0, False, False)
        a, b = sorted([float(rng.choice([0.0, 0.25, 0.5, 0.125])), float(rng.choice([0.5, 0.75, 1.0, 0.625]))])
        if not a < b:
            a, b = 0.0, 1.0
        span = float(x[-1]) - float(x[0])
        mix = int(rng.integers(0, 3))
        if mix == 1 and float(x[0]) + a * span < float(x[j]):      # left as a ratio, right as an absolute value
            return (a, float(x[j]), True, False)
        if mix == 2 and float(x[i]) < float(x[0]) + b * span:      # left absolute, right as a ratio
            return (float(x[i]), b, False, True)
        return (a, b, True, True)
    if op == "truncate_by_index":
        start = int(rng.integers(0, max(1, n - 2)))
        stop = None if rng.integers(0, 3) == 0 else int(rng.integers(start + 2, n + 1))
        if stop is not None and rng.integers(0, 4) == 0:
            stop = stop - n if stop < n else -1 if n - start >= 3 else stop      # the same cut counted from the end
        return (start, stop)
    raise KeyError(op)


def do_reshape(rng, wv, which, meta):
    """apply a reshaping operation with admissible arguments; returns a printable description or None if skipped"""
    x, y = wv.get()
    n = len(x)
    if which == "recreate":
        if n < 2 or n > 300:
            return None
        strat = R.ALL[int(rng.integers(0, 6))]
        k = int(rng.integers(2, 7))
        wv.recreate_from_average(k, rfa_class=R.cls(strat))
        return ["recreate", k, strat]
    if which == "match":
        rx, _ry = wv.get_reference()
        if n < 2 * len(rx) or len(rx) < 2 or x[0] != rx[0] or x[-1] != rx[-1] or not meta.get("grid_ok"):
            return None
        wv.integral_match()
        return ["match"]
    if which == "interpolate":
        if n < 4:
            return None
        k = int(rng.integers(max(4, n // 2), 2 * n + 2))
        method = ["linear", "constant", "cubic", "spline"][int(rng.integers(0, 4))]
        wv.interpolate(n=k, method=method)
        meta["grid_ok"] = False
        return ["interpolate", k, method]
    if which == "smooth":
        if n < 5:
            return None
        wv.smooth(float(rng.choice([0.0, 0.1, 1.0])))
        return ["smooth"]
    if which == "trend":
        c = float(rng.normal(0, 1))
        wv.trend(lambda t: c * t, normalized=bool(rng.integers(0, 2)))
        return ["trend", c]
    if which == "noise":
        np.random.seed(int(rng.integers(0, 2 ** 31)))
        wv.noise(float(rng.choice([10.0, 30.0])))
        return ["noise"]
    raise KeyError(which)


def judge_pipeline(ctx, cid, wv, ref_x, ref_y, strat, n, rule, hist, ys0=None):
    """C02's oracle against the shadow reference; as there, the terms entering the equation are the result, the target
    and the unmatched input the stretch started from (its rounding is what the matched mean inherits)"""
    xs, res = wv.get()
    m = len(ref_x)
    bad = R.well_formed(xs, res, m, n)
    if bad:
        ctx.violation("pipeline_malformed", cid, {"problem": bad, "history": hist})
        return False
    xl, rl = [float(v) for v in xs], [float(v) for v in res]
    y0l = [float(v) for v in ys0] if ys0 is not None and len(ys0) == len(rl) else None
    rel = tol.rel_for(xs)
    gmag = max(float(np.max(np.abs(res))), float(np.max(np.abs(ref_y))))
    for k in range(m - 1):
        width = float(ref_x[k + 1]) - float(ref_x[k])
        got = I.integ(xl, rl, k * n, (k + 1) * n, rule)
        want = float(ref_y[k]) * width
        sc = I.scale(xl, rl, k * n, (k + 1) * n, rule) + abs(want) + 1e-3 * gmag * width + \
            (abs(float(ref_y[k])) + abs(float(ref_y[k + 1]))) * width + \
            (I.scale(xl, y0l, k * n, (k + 1) * n, rule) if y0l else 0.0)
        if not tol.close(got, want, sc, rel):
            ctx.violation("pipeline_interval_mean_vs_transformed_average", cid,
                          {"interval": k, "mean_got": got / width, "average(model)": float(ref_y[k]),
                           "rule": rule, "strategy": strat, "n": n, "history": hist})
            return False
    return True


def run_default_grid_case(ctx, kind_, idx):
    """Weaver(None, y): the documented default abscissae 0 .. len(y)-1, on a series of a few thousand samples, rescaled
    and shifted with plain Python ints (sample index -> microseconds, -> epoch seconds): whatever type the library
    builds the default grid in must hold the results"""
    from traffic_weaver import Weaver
    rng = ctx.rng(kind_, idx)
    cid = ctx.case_id(kind_, idx)
    m = int(rng.integers(2200, 6001))
    y = rng.normal(0, 1, m) + 5.0
    ctx.judged()
    hist = []
    try:
        wv = Weaver(None, y.copy())
        sh = Shadow(np.arange(m), y)
        for _ in range(int(rng.integers(1, 4))):
            op = ["scale_x", "shift_x", "scale_x", "shift_y", "scale_y"][int(rng.integers(0, 5))]
            if op == "scale_x":
                args = (int(rng.choice([60, 1000, 10 ** 6, 3600 * 1000])),)
            elif op == "shift_x":
                args = (int(rng.choice([3600, -86400, 1_700_000_000, 2 ** 31 - m // 2])),)
            else:
                args = (int(rng.choice([2, -3, 1000])),)
            if float(np.max(np.abs(sh.x))) * abs(args[0]) > 2.0 ** 52:
                continue
            hist.append([op, list(args)])
            call(wv, op, args, rng)
            sh.step(op, args)
            ctx.monitor("c08:default_grid")
            if not check_state(ctx, cid, wv, sh, op, args, hist):
                return
        if hist:
            ctx.nontriv("default_grid", idx)
    except Exception as e:
        ctx.exception("operation_raised_on_admissible_history", cid, e, {"history": hist, "constructed": "Weaver(None, y)"})


def run_random_case(ctx, kind_, idx):
    from traffic_weaver import Weaver
    rng = ctx.rng(kind_, idx)
    cid = ctx.case_id(kind_, idx)
    x0, y0, meta = R.gen_series(rng, 4, 16, ties_share=0.3)
    if meta["ycls"] == "constant":
        y0 = y0 + np.arange(len(y0))
    if rng.integers(0, 4) == 0 and np.all(x0 == np.round(x0)):
        x0 = x0.astype(np.int64 if rng.integers(0, 2) or np.max(np.abs(x0)) >= 2 ** 30 else np.int32)
    if rng.integers(0, 6) == 0 and np.all(y0 == np.round(y0)) and np.max(np.abs(y0)) < 3000:
        y0 = (y0 * 10 + 200).astype(np.int16)
    wv = Weaver(x0.copy(), y0.copy())
    sh = Shadow(x0, y0)
    hist = []
    L = int(rng.integers(0, 9))
    changed = False
    st = {"grid_ok": True}
    pure = bool(rng.integers(0, 2))          # half of the histories contain domain operations only
    ctx.judged()
    try:
        with fp_watch(ctx):
            for _ in range(L):
                if not pure and rng.uniform() < 0.35:
                    which = RESHAPE[int(rng.integers(0, 6))]
                    rb = [np.array(a).copy() for a in wv.get_reference()]
                    d = do_reshape(rng, wv, which, st)
                    if d is None:
                        continue
                    hist.append(d)
                    sh.reshaped = True
                    ctx.monitor("c08:reshape_keeps_reference")
                    ra = wv.get_reference()
                    if not (same_bits(ra[0], rb[0]) and same_bits(ra[1], rb[1])):
                        ctx.violation("reshaping_changed_reference", cid, {"op": d, "history": hist,
                                                                          "before": rb, "after": list(ra)})
                        return
                    continue
                op = DOMAIN[int(rng.integers(0, 10))]
                args = random_domain_args(rng, op, sh.x, sh.y)
                if not D.admissible(op, args, sh.x, sh.y) or len(sh.x) * (args[0] if op == "repeat" else 1) > (5000 if op == "repeat" and args[0] > 200 else 400):
                    continue
                if sh.reshaped:
                    # the working series has its own sample set: value bounds must be admissible for it as well
                    wx, wy = wv.get()
                    if not D.admissible(op, args, np.asarray(wx), np.asarray(wy)) or len(wx) > 3000:
                        continue
                    if op == "truncate_by_index":
                        # indices of the working series mean nothing for the (differently sampled) reference;
                        # the property only speaks about domain operations "as long as the series has not been
                        # reshaped", so this combination is outside its quantifier
                        continue
                    st["grid_ok"] = st["grid_ok"] and op not in ("truncate_by_value", "truncate_by_index", "repeat",
                                                                  "append_one_sample")
                hist.append([op, list(args)])
                call(wv, op, args, rng)
                before = (sh.x, sh.y)
                if sh.reshaped:
                    # outside the first clause's quantifier: not judged, the model just follows the real reference
                    ctx.count("domain_op_after_reshape_not_judged")
                    rx, ry = wv.get_reference()
                    sh.x, sh.y = np.array(rx).copy(), np.array(ry).copy()
                    continue
                sh.step(op, args)
                if not check_state(ctx, cid, wv, sh, op, args, hist):
                    return
                if before[0].shape != sh.x.shape or not (np.array_equal(before[0], sh.x)
                                                         and np.array_equal(before[1], sh.y)):
                    changed = True
            # ---- pipeline clause: recreate + match after the history reproduces the TRANSFORMED averages
            if not sh.reshaped and 2 <= len(sh.x) <= 200:
                strat = R.ALL[int(rng.integers(0, 6))]
                n = int(rng.choice([2, 3, 5, 8, 12]))
                kw, _a = R.gen_params(rng, strat, n)
                rule = ["trapezoid", "rectangle"][int(rng.integers(0, 2))]
                import copy
                wv_b = copy.deepcopy(wv)
                hist2 = hist + [["recreate", n, strat, kw], ["match", rule]]
                wv.recreate_from_average(n, rfa_class=R.cls(strat), **kw)
                ys0 = np.array(wv.get()[1], dtype=float).copy()       # what the stretch starts from
                wv.integral_match(target_function_integral_method=rule)
                ctx.monitor("c08:pipeline")
                ctx.count("pipeline:%s" % strat)
                if not judge_pipeline(ctx, cid, wv, sh.x, sh.y, strat, n, rule, hist2, ys0):
                    return
                ra = wv.get_reference()
                if not (np.array_equal(ra[0], sh.x) and np.array_equal(ra[1], sh.y)):
                    ctx.violation("pipeline_changed_reference", cid, {"history": hist2})
                    return
                # ---- commutation: shift / scale before the pipeline == after the pipeline
                adaptive = "Adaptive" in strat
                choices = ["shift_x", "scale_x"] + (["scale_y_pow2"] if adaptive else ["shift_y", "scale_y"])
                mp = choices[int(rng.integers(0, len(choices)))]
                if mp == "scale_y_pow2":
                    op, arg = "scale_y", float(rng.choice([2.0, -4.0, 0.5, 2.0 ** -40, 2.0 ** 33, -2.0 ** -52]))
                elif mp in ("shift_x", "shift_y"):
                    op, arg = mp, float(rng.normal(0, 5))
                elif mp == "scale_x":
                    op, arg = mp, float(rng.choice([2.0, 0.5, float(rng.lognormal(0, 1))]))
                else:
                    op, arg = "scale_y", float(rng.choice([3.0, -0.7, 1e-12, 1e9, float(rng.normal(0, 2)) or 1.0]))
                getattr(wv, op)(arg)                          # after the pipeline
                getattr(wv_b, op)(arg)                        # before the pipeline
                wv_b.recreate_from_average(n, rfa_class=R.cls(strat), **kw)
                wv_b.integral_match(target_function_integral_method=rule)
                ctx.monitor("c08:commute")
                (xa, ya), (xb, yb) = wv.get(), wv_b.get()
                loose = 100.0 if strat == "CubicSplineRFA" else 1.0
                relc = loose * (1e-9 + tol.cond_x(xa) + tol.cond_x(xb)) * 50
                ysc = max(float(np.max(np.abs(ya))), float(np.max(np.abs(wv.get_reference()[1]))), 1e-300)
                xsc = max(float(np.max(np.abs(xa))), 1e-300)
                if np.shape(xa) != np.shape(xb) or not np.max(np.abs(np.asarray(xa) - xb)) <= 1e-9 * xsc or \
                        not np.max(np.abs(np.asarray(ya) - yb)) <= relc * ysc:
                    ctx.violation("map_does_not_commute_with_pipeline", cid,
                                  {"map": [op, arg], "history": hist2,
                                   "max_dy": float(np.max(np.abs(np.asarray(ya) - yb))) if np.shape(ya) == np.shape(yb) else None,
                                   "scale": ysc})
                    return
    except Exception as e:
        ctx.exception("operation_raised_on_admissible_history", cid, e, {"history": hist})
        return
    if changed:
        ctx.nontriv("rnd", idx)
    if idx % 1000 == 6:
        ctx.sample({"x0": x0, "y0": y0, "history": hist})


def run(ctx, spec):
    if spec["kind"] == "exhaustive":
        run_exhaustive(ctx, spec)
    else:
        for idx in range(spec["start"], spec["start"] + spec["count"]):
            (run_default_grid_case if spec["kind"] == "default_grid" else run_random_case)(ctx, spec["kind"], idx)


def replay(ctx, case):
    if case["kind"] == "exhaustive":
        run_history(ctx, case, BASES[case["base"]], [ALPHABET[i] for i in case["letters"]])
        ctx.judged()
    else:
        (run_default_grid_case if case["kind"] == "default_grid" else run_random_case)(ctx, case["kind"], case["idx"])
