"""C06 - transitions follow the documented geometry and shape functions."""
import math

import numpy as np

from . import _rfa as R
from .. import gen, tol
from ..core import fp_watch
from ..models import rfa_model as RM

PROPERTY = "C06"
LEVEL = "exploration"
LEVEL_TEXT = ("Reference-model monitor: an executable model written from the docstrings of rfa.py / funfit.py (border "
              "value = chord between the adjacent plateau ends, straight-line / linear-then-blend shapes, adaptive "
              "split by the jump ratio, truncated windows) is run beside every real window-strategy execution and the "
              "outputs compared sample by sample; adaptive windows are additionally read off the output and compared "
              "with the jump ratio; the five funfit functions are compared with their documented closed forms at "
              "random arguments and at both end points. Sampled, knife-edge window cases skipped and counted.")
LEVEL_NOTE = ("Trusts the docstring-derived model (models/rfa_model.py, ~120 lines); window truncation is evaluated in "
              "exact rationals and in several float formulas and cases where they disagree are not judged; the very "
              "last sample is not judged (code and docstring differ there, the property speaks of interior borders).")
TECHNIQUE = "reference-model monitor (docstring-derived executable model vs real output) + closed-form post-conditions on funfit"
RULE = ("strategy runs: 4 window strategies x series 2..40 points (real-valued for adaptive; ties for fixed) x x class "
        "(>=70% non-uniform) x n x alpha / explicit a x beta x exponent in (0,4], adaptive_smooth = 1; shape "
        "evaluations: 5 functions x random x0<x<x1 (incl. end points), y0, y1, exponent in (0,5]. non-trivial strategy "
        "run: not knife-edge and at least one transition sample differs from its plateau; distinct by case index."
        " Also: averages handed over as float32 / float16, a second object of the same class in between, explicit a together with alpha."
        " Round-4 classes: constructor call forms (documented positional order / by name), series of 1001..1800 averages."
        " Round-5 classes: a 'huge' kind - 66 000..90 000 intervals with n in {2, 3}, one strategy per case."
        " Round-6 classes: RuntimeWarnings on ordinary input are violations (see C04)."
        " Round-7 classes: as C05; abscissae in any container (also collections.deque)."
        " Round-8 classes: strategies as user classes derived from the library's (constructor forwarding **kwargs); the request also through Weaver.recreate_from_average(n, rfa_class, **parameters)."
        " Round-9 classes: as C05 (parameter sweeps on one series); huge sizes also between 2**15 and 2**16.")
REQUIRED_MONITORS = ["c06:model", "c06:adaptive_windows", "c06:funfit"]
ASSUMPTIONS = ["adaptive_smooth fixed at 1 (the property's quantifier)", "knife-edge window sizes skipped (counted)"]
NSHARDS = 16
DISCARD_HEAVY_OK = False


def plan(tier, seed):
    n = 16000 if tier == "quick" else 1200000
    k = 40000 if tier == "quick" else 3000000
    specs = [{"kind": "strategy", "start": p * (n // NSHARDS), "count": n // NSHARDS} for p in range(NSHARDS)]
    specs += [{"kind": "funfit", "start": p * (k // NSHARDS), "count": k // NSHARDS} for p in range(NSHARDS)]
    specs += [{"kind": "huge", "start": p, "count": 1} for p in range(2 if tier == "quick" else 16)]
    return specs


def observed_windows(ys, y, n, k, scale):
    yk = float(y[k])
    z = [float(v) for v in ys[k * n:(k + 1) * n]]
    t = 1e-9 * scale
    pre = 0
    while pre < n and abs(z[pre] - yk) > t:
        pre += 1
    suf = 0
    while suf < n - pre and abs(z[n - 1 - suf] - yk) > t:
        suf += 1
    return pre, suf + 1


def run_strategy_case(ctx, kind_, idx):
    rng = ctx.rng(kind_, idx)
    cid = ctx.case_id(kind_, idx)
    strat = R.WINDOW[int(rng.integers(0, 4))]
    adaptive = "Adaptive" in strat
    n = R.gen_n(rng)
    huge = None
    if kind_ == "huge":
        # a day of per-second averages: more than 2**16 intervals, smallest factors (the cost is per sample)
        strat = R.WINDOW[idx % 4]
        adaptive = "Adaptive" in strat
        n = int(rng.choice([2, 3]))
        huge = gen.huge_size(rng)
    kw, a = R.gen_params(rng, strat, n, smooth_free=False, exp_hi=4.0)
    x, y, meta = R.gen_series(rng, 2, 40, ties_share=0.0 if adaptive else 0.3, real_valued=adaptive, long_share=R.LONG_SHARE,
                              force_m=huge)
    if rng.uniform() < 0.6 and meta["xcls"] in ("uniform", "integer", "epoch"):
        x, meta["xcls"] = gen.gen_x(rng, len(x), "nonuniform")
    if adaptive and rng.integers(0, 5) == 0:
        # tie cases of the adaptive strategies (documented special branches) - exactly equal neighbours
        j = int(rng.integers(0, len(y)))
        y = y.copy()
        y[j:j + int(rng.integers(2, 4))] = y[j]
        meta["ycls"] += "+ties"
    x, y_arg, y = R.narrow_series(rng, x, y, meta)
    info = R.brief(strat, x, y, n, kw, meta)
    try:
        with fp_watch(ctx) as fpw:
            xs, ys = R.run(strat, x, y_arg, n, kw, rng=rng)
    except Exception as e:
        ctx.judged()
        ctx.exception("raised_on_admissible_input", cid, e, {"case": info})
        return
    if fpw.tripped:
        # the values are judged below; a caller running with warnings as errors or numpy.seterr(all="raise") would not
        # have got any - the unchanged code answers ordinary finite input without a single floating-point warning
        ctx.violation("floating_point_warning_on_ordinary_input", cid, {"warnings": fpw.tripped[:4], "case": info})
        ctx.judged()
        return
    if R.well_formed(xs, ys, len(x), n):
        ctx.judged()
        ctx.violation("malformed_output", cid, {"problem": R.well_formed(xs, ys, len(x), n), "case": info})
        return
    mod, (AL, AR), knife = RM.model(strat, x, y, n, a, kw.get("beta", 0.5), kw.get("exp", 2.0))
    if knife:
        ctx.discard("knife_edge_window")
        return
    ctx.judged()
    ctx.monitor("c06:model")
    ctx.count("strategy:%s" % strat)
    ctx.count("x:%s" % meta["xcls"])
    scale = float(np.max(np.abs(y))) or 1.0
    rel = tol.rel_for(x)
    worst = 0.0
    for i in range(len(mod) - 1):
        e = abs(float(ys[i]) - mod[i])
        worst = max(worst, e / scale)
        if not e <= rel * scale:
            k, j = divmod(i, n)
            ctx.violation("differs_from_documented_model", cid,
                          {"sample": i, "interval": k, "i": j, "got": float(ys[i]), "model": mod[i],
                           "windows(model)": [AL[k + 1], AR[k + 1]], "a": a, "case": info})
            return
    ctx.track_worst("model_rel_err", worst)
    moved = any(abs(float(ys[i]) - float(y[i // n])) > 1e-9 * scale for i in range(len(mod) - 1))
    if adaptive:
        yl = [float(v) for v in y]
        for k in range(len(y) - 1):
            left = abs(yl[k] - (yl[k - 1] if k > 0 else yl[0]))
            right = abs(yl[k + 1] - yl[k])
            if left <= 1e-6 * scale or right <= 1e-6 * scale:   # windows are read off the output: need visible jumps
                continue
            # ... and a visible FIRST transition sample: next to the plateau a power-shaped transition deviates by only
            # jump * (1/a)**exp, which must stand clear of the 1e-9 * scale reading threshold of observed_windows
            e_eff = max(float(kw.get("exp", 2.0)), 1.0) if strat.startswith("Exp") else 1.0
            if min(left, right) * float(a) ** (-e_eff) <= 1e-7 * scale:
                ctx.count("adaptive_windows:first_transition_sample_below_reading_threshold")
                continue
            ctx.monitor("c06:adaptive_windows")
            L, Rr = observed_windows(ys, y, n, k, scale)
            g = right / left
            wantL = min(max(g * a / (1 + g), 1), a - 1)
            wantR = min(max(a / (1 + g), 1), a - 1)
            bad = None
            if right > left and Rr > L:
                bad = "larger jump on the right but larger window on the right"
            elif left > right and L > Rr:
                bad = "larger jump on the left but larger window on the left"
            elif not (math.floor(wantL) - 1 <= L <= math.ceil(wantL)) or not (math.floor(wantR) - 1 <= Rr <= math.ceil(wantR)):
                bad = "windows not the truncated proportional split"
            if bad:
                ctx.violation("adaptive_window_split", cid, {"interval": k, "why": bad, "observed": [L, Rr],
                                                             "proportional": [wantL, wantR], "jumps": [left, right],
                                                             "a": a, "case": info})
                return
    if moved:
        ctx.nontriv("c06", idx, strat)
    if idx % 4000 == 13:
        ctx.sample(info)


CLOSED = {
    "lin_fit": lambda t, e: t,
    "exp_fit": lambda t, e: t ** e,
    "exp_xy_fit": lambda t, e: 1 - (1 - t) ** e,
    "exp_lin_fit": lambda t, e: t * t + (1 - t) * t ** e,
    "lin_exp_xy_fit": lambda t, e: t * (1 - (1 - t) ** e) + (1 - t) * t,
}


def run_funfit_case(ctx, kind_, idx):
    from traffic_weaver import funfit
    rng = ctx.rng(kind_, idx)
    cid = ctx.case_id(kind_, idx)
    name = list(CLOSED)[int(rng.integers(0, 5))]
    x0 = float(rng.normal(0, 10)) if rng.integers(0, 3) else float(rng.integers(-5, 6))
    w = float(rng.choice([1.0, 0.5, 10.0, float(rng.lognormal(0, 1.5))]))
    x1 = x0 + w
    y0, y1 = float(rng.normal(0, 10)), float(rng.normal(0, 10))
    if rng.integers(0, 6) == 0:
        y1 = y0
    e = float(rng.choice([2.0, 1.0, 0.5, 3.0, float(rng.uniform(0.01, 5.0))]))
    pos = int(rng.integers(0, 6))
    xq = x0 if pos == 0 else x1 if pos == 1 else x0 + w * float(rng.uniform(0, 1))
    args = (xq, (x0, y0), (x1, y1))
    ctx.judged()
    ctx.monitor("c06:funfit")
    ctx.count("funfit:%s" % name)
    try:
        got = getattr(funfit, name)(*args) if name == "lin_fit" else getattr(funfit, name)(*args, alpha=e)
    except Exception as ex:
        ctx.exception("funfit_raised", cid, ex, {"fn": name, "args": args, "exp": e})
        return
    t = (xq - x0) / (x1 - x0)
    want = y0 + (y1 - y0) * CLOSED[name](t, e)
    sc = max(abs(y0), abs(y1), 1e-300)
    rel = 1e-9 + 64 * tol.EPS * max(abs(x0), abs(x1)) / w * max(1.0, e, 1.0 / e)
    if not isinstance(got, (float, np.floating)) or not tol.close(got, want, sc, rel):
        ctx.violation("closed_form", cid, {"fn": name, "x": xq, "p0": [x0, y0], "p1": [x1, y1], "exp": e,
                                           "got": got, "want": want})
        return
    if pos in (0, 1):
        end = y0 if pos == 0 else y1
        if not tol.close(got, end, sc, rel):
            ctx.violation("end_point_missed", cid, {"fn": name, "x": xq, "got": got, "want": end, "exp": e})
            return
    if y1 != y0:
        ctx.nontriv("ff", idx)
    if idx % 9000 == 1:
        ctx.sample({"funfit": name, "x": xq, "p0": [x0, y0], "p1": [x1, y1], "exp": e, "value": got})


def run(ctx, spec):
    f = run_funfit_case if spec["kind"] == "funfit" else run_strategy_case
    for idx in range(spec["start"], spec["start"] + spec["count"]):
        f(ctx, spec["kind"], idx)


def replay(ctx, case):
    (run_funfit_case if case["kind"] == "funfit" else run_strategy_case)(ctx, case["kind"], case["idx"])
