"""C20 - invalid requests are refused with ValueError and leave the Weaver untouched."""
import numpy as np

from . import _rfa as R
from . import _weaver_ops as W
from .c09 import same_state, snap
from ..core import fp_watch

PROPERTY = "C20"
LEVEL = "exploration"
LEVEL_TEXT = ("Rejection monitor: every listed class of invalid request is issued against the real entry points with "
              "random valid surrounding arguments, for Weaver operations after a random valid history (so that working, "
              "reference and original series all differ); the call must raise ValueError (nothing else, and not return), "
              "and a bit-for-bit snapshot of working / reference / original series (bytes, dtype, shape, container "
              "type) taken before must equal the one taken after. Sampled per class.")
LEVEL_NOTE = ("'ValueError' means isinstance(exc, ValueError); the valid part of each request is generated with the "
              "preconditions of C01/C09 so that no other error can legitimately come first.")
TECHNIQUE = "rejection monitor: exception-type check + bit-for-bit state snapshot before/after on the real Weaver after random valid histories"
CLASSES = ["length_mismatch", "not_N_by_2", "n_below_2_strategy", "n_below_2_weaver", "rule_function_target",
           "rule_function_reference", "rule_weaver_target", "rule_weaver_reference", "rule_integral_helper",
           "strategy_dispatcher", "strategy_matching_function", "strategy_matching_weaver", "method_function",
           "method_weaver", "dataset_name", "fixed_values_not_samples", "fixed_values_too_many",
           "fixed_indices_too_many", "truncate_inverted_values", "truncate_empty_values", "truncate_inverted_ratios",
           "truncate_function_inverted", "slice_index_negative_start", "slice_index_stop_beyond",
           "truncate_index_negative_start", "truncate_index_stop_beyond", "slice_value_start_missing",
           "slice_value_stop_missing", "slice_value_both_missing", "grid_first_point", "grid_last_point",
           "grid_neither_n_nor_grid"]
RULE = ("case = invalid-request class (%d classes covering every item of the statement) x random valid surrounding "
        "arguments x, for Weaver entry points, a random valid history of 0..6 operations. non-trivial: Weaver classes "
        "whose pre-state differs from a freshly constructed object, and every function-level rejection; distinct by "
        "case index."
        " Also: fuzzed requests after histories with reshaping (any call ending in ValueError must leave the state untouched), exact zeros that are not samples as missing slicing values, degenerate fixed-point designations next to unknown rule names, and a twin object that never saw the rejected request (later behaviour must be identical)."
        " Round-4 classes: unknown strategy names together with an empty or out-of-range look-up / an emptied reference; strategy positionally."
        " Round-5 classes: grids with exchanged / reversed end points, unknown strategy names next to valid explicit fixed points, mixed ratio / absolute bounds in the fuzzed requests."
        " Round-6 classes: tables with 1, 3 or 4 columns read through Weaver.from_csv (even and odd row counts)."
        " Round-8 classes: an oversampling factor below 2 on a Weaver holding one sample.") % len(CLASSES)
REQUIRED_MONITORS = ["c20:" + c for c in CLASSES] + ["c20:state_snapshot", "c20:fuzzed_request", "c20:fuzzed_rejected", "c20:twin_continuation"]
ASSUMPTIONS = ["out-of-range fixed-point INDICES are not exercised (outside the statement); empty look-ups only together with an unknown name"]
NSHARDS = 16
BOGUS = ["bogus", "", "Trapezoid", "rect", "nearest", "LINEAR", "quadratic", None, 3]


def plan(tier, seed):
    n = 12000 if tier == "quick" else 750000
    k = n // 2
    return [{"kind": "random", "start": p * (n // NSHARDS), "count": n // NSHARDS} for p in range(NSHARDS)] + \
        [{"kind": "fuzz", "start": p * (k // NSHARDS), "count": k // NSHARDS} for p in range(NSHARDS)]


def bogus(rng, valid):
    while True:
        b = BOGUS[int(rng.integers(0, len(BOGUS)))]
        if b not in valid:
            return b


def history(rng, wv, lo=0, hi=6, allow=None):
    prog = []
    for _ in range(int(rng.integers(lo, hi + 1))):
        op = W.gen_op(rng, wv, allow=allow)
        if op is None:
            continue
        W.apply(wv, op)
        prog.append(W.printable(op))
    return prog


DOMAIN_ONLY = ["append_one_sample", "repeat", "scale_x", "scale_y", "shift_x", "shift_y", "normalize_x", "normalize_y",
               "truncate_by_value", "truncate_by_index"]


def run_fuzz_case(ctx, kind_, idx):
    """Requests with arbitrary (valid or invalid) arguments after histories that include reshaping: whatever the
    library decides, a call that ends in ValueError must not have touched working / reference / original series."""
    from traffic_weaver import Weaver
    rng = ctx.rng(kind_, idx)
    cid = ctx.case_id(kind_, idx)
    x, y, meta = R.gen_series(rng, 4, 20, ties_share=0.2)
    if meta["ycls"] == "constant":
        y = y + np.arange(len(y))
    info = {}
    try:
        with fp_watch(ctx):
            wv = Weaver(x.copy(), y.copy())
            info["history"] = W.random_history(rng, wv, 1, 5, max_len=600)
            wx, wy = wv.get()
            n, nr = len(wx), len(wv.get_reference()[0])
            t = int(rng.integers(0, 9))
            lo, hi = float(wx[0]), float(wx[-1])
            if t == 0:
                a = (int(rng.integers(-2, n + 3)), None if rng.integers(0, 3) == 0 else int(rng.integers(-2, max(n, nr) + 3)))
                info["request"] = ["truncate_by_index", list(a)]
                call = lambda: wv.truncate_by_index(*a)
            elif t == 1:
                a = (int(rng.integers(-2, n + 3)), None if rng.integers(0, 3) == 0 else int(rng.integers(-2, n + 3)),
                     int(rng.integers(1, 4)))
                info["request"] = ["slice_by_index", list(a)]
                call = lambda: wv.slice_by_index(*a)
            elif t == 2:
                a = sorted(rng.uniform(lo - 0.2 * (hi - lo), hi + 0.2 * (hi - lo), 2))
                if rng.integers(0, 3) == 0:
                    a = a[::-1]
                info["request"] = ["truncate_by_value", [float(v) for v in a]]
                call = lambda: wv.truncate_by_value(float(a[0]), float(a[1]))
            elif t == 3:
                a = (float(rng.uniform(-0.2, 1.2)), float(rng.uniform(-0.2, 1.2)))
                info["request"] = ["truncate_by_value(ratios)", list(a)]
                call = lambda: wv.truncate_by_value(a[0], a[1], True, True)
            elif t == 8:
                # one bound as a ratio, the other as a value: after reshaping the working and the reference series may
                # span different ranges, so the same request can be valid for one and inverted for the other
                r_, v_ = float(rng.uniform(-0.1, 1.1)), float(rng.uniform(lo - 0.1 * (hi - lo), hi + 0.1 * (hi - lo)))
                left_ratio = bool(rng.integers(0, 2))
                a = (r_, v_, True, False) if left_ratio else (v_, r_, False, True)
                info["request"] = ["truncate_by_value(mixed)", list(a)]
                call = lambda: wv.truncate_by_value(*a)
            elif t == 4:
                pick = lambda: float(wx[int(rng.integers(0, n))]) if rng.integers(0, 2) else \
                    (float(rng.uniform(lo, hi)) if rng.integers(0, 4) else 0)
                a = (pick(), pick())
                info["request"] = ["slice_by_value", list(a)]
                call = lambda: wv.slice_by_value(*a)
            elif t == 5:
                g = np.sort(rng.uniform(lo, hi, int(rng.integers(2, 12))))
                if rng.integers(0, 2):
                    g[0] = lo
                if rng.integers(0, 2):
                    g[-1] = hi
                m = ["linear", "constant", "cubic", "bogus"][int(rng.integers(0, 4))]
                info["request"] = ["interpolate", {"grid_points": len(g), "method": m}]
                call = lambda: wv.interpolate(new_x=g, method=m)
            elif t == 6:
                k = [0, 1, 2, 3, -1, 1.5][int(rng.integers(0, 6))]
                info["request"] = ["recreate_from_average", k]
                call = lambda: wv.recreate_from_average(k, rfa_class=R.cls(R.ALL[int(rng.integers(0, 6))]))
            else:
                kw = {"target_function_integral_method": ["trapezoid", "rectangle", "bogus"][int(rng.integers(0, 3))],
                      "fixed_points_finding_strategy": ["closest", "lower", "nearest"][int(rng.integers(0, 3))]}
                info["request"] = ["integral_match", kw]
                call = lambda: wv.integral_match(**kw)
            before = snap(wv)
            ctx.judged()
            ctx.monitor("c20:fuzzed_request")
            try:
                call()
            except ValueError:
                ctx.monitor("c20:fuzzed_rejected")
                if not same_state(before, snap(wv)):
                    ctx.violation("rejected_operation_changed_state:fuzzed", cid, {"case": info})
                    return
                ctx.nontriv("fuzz", idx)
            except Exception:
                ctx.count("fuzzed:other_exception_not_judged")
            else:
                ctx.count("fuzzed:accepted_not_judged")
    except Exception as e:
        ctx.exception("harness_or_valid_history_raised", cid, e, {"case": info})
        return
    if idx % 1300 == 21:
        ctx.sample(info)


def run_case(ctx, kind_, idx):
    if kind_ == "fuzz":
        return run_fuzz_case(ctx, kind_, idx)
    from traffic_weaver import Weaver
    from traffic_weaver import process, sorted_array_utils as U
    from traffic_weaver.match import integral_matching_reference_stretch
    rng = ctx.rng(kind_, idx)
    cid = ctx.case_id(kind_, idx)
    c = CLASSES[idx % len(CLASSES)]
    cid["class"] = c
    x, y, meta = R.gen_series(rng, 4, 30, ties_share=0.2)
    if meta["ycls"] == "constant":
        y = y + np.arange(len(y))
    info = {"class": c}
    wv = None
    call = None
    try:
        with fp_watch(ctx):
            # ---------------- function-level classes
            if c == "length_mismatch":
                k = int(rng.integers(1, 4))
                yy = y[:-k] if rng.integers(0, 2) else np.append(y, [1.0] * k)
                call = lambda: Weaver(x if rng.integers(0, 2) else list(x), yy)
            elif c == "not_N_by_2":
                t = int(rng.integers(0, 4))
                arr = [np.asarray(x), np.zeros((len(x), 2, 2)), np.column_stack([x, y, y]), np.column_stack([x, y]).T][t]
                if t == 3 and arr.shape[1] == 2:
                    arr = np.zeros((2, 5))
                info["shape"] = list(arr.shape)
                call = lambda: Weaver.from_2d_array(arr)
                if rng.integers(0, 3) == 0:
                    # the same table read from a file: one, three or four columns (timestamp, inbound, outbound), with an
                    # even or an odd number of rows
                    import os
                    import tempfile
                    ncol = int(rng.choice([1, 3, 4]))
                    rows = len(x) - int(rng.integers(0, 2))
                    table = np.column_stack([np.asarray(x, dtype=float)[:rows]] + [np.asarray(y, dtype=float)[:rows]] * (ncol - 1))
                    fd, path = tempfile.mkstemp(prefix="twverif-c20-", suffix=".csv")
                    os.close(fd)
                    np.savetxt(path, table, delimiter=",")
                    info["shape"] = [rows, ncol]
                    info["from_csv"] = True

                    def call(path=path):
                        try:
                            return Weaver.from_csv(path)
                        finally:
                            os.unlink(path)
            elif c == "n_below_2_strategy":
                strat = R.ALL[int(rng.integers(0, 6))]
                bad = [1, 0, -3, 1.5][int(rng.integers(0, 4))]
                kw, _a = R.gen_params(rng, strat, 4)
                info.update({"strategy": strat, "n": bad})
                call = lambda: R.cls(strat)(x, y, bad, **kw).rfa()
            elif c in ("rule_function_target", "rule_function_reference", "strategy_matching_function",
                       "fixed_values_not_samples", "fixed_values_too_many", "fixed_indices_too_many"):
                n = int(rng.choice([2, 3, 5]))
                xs, ys = R.run("PiecewiseConstantRFA", x, y, n, {})
                ys = ys + rng.normal(0, 0.1, len(ys))
                kw = {}
                ref_x, ref_y = x, y
                if c == "rule_function_target":
                    kw["target_function_integral_method"] = bogus(rng, ("trapezoid", "rectangle"))
                elif c == "rule_function_reference":
                    kw["reference_function_integral_method"] = bogus(rng, ("trapezoid", "rectangle"))
                if c in ("rule_function_target", "rule_function_reference") and rng.integers(0, 3) == 0:
                    # a degenerate but accepted designation (fixed points delimiting no interval) is still a valid
                    # surrounding: the unknown name must be refused all the same
                    j = int(rng.integers(0, len(xs)))
                    if rng.integers(0, 2):
                        kw["fixed_points_in_x"] = [float(xs[j])]
                    else:
                        kw["fixed_points_indices_in_x"] = [j]
                elif c == "strategy_matching_function":
                    kw["fixed_points_finding_strategy"] = bogus(rng, ("closest", "lower", "higher"))
                    if rng.integers(0, 3) == 0:
                        # valid explicit fixed points next to the unknown name: the name is not needed then, it is
                        # refused all the same ("with arbitrary surrounding valid arguments")
                        if rng.integers(0, 2):
                            kw["fixed_points_in_x"] = [float(v) for v in x]
                        else:
                            kw["fixed_points_indices_in_x"] = list(range(0, len(xs), n))
                        info["explicit_fixed_points"] = True
                    elif rng.integers(0, 4) == 0:
                        # nothing to look up (an emptied reference): the name is examined all the same
                        ref_x, ref_y = ([], []) if rng.integers(0, 2) else (np.array([]), np.array([]))
                        info["empty_reference"] = True
                elif c == "fixed_values_not_samples":
                    fp = [float(v) for v in x]
                    j = int(rng.integers(0, len(fp)))
                    fp[j] = fp[j] + 0.37 * float(xs[1] - xs[0])       # between two samples of xs
                    kw["fixed_points_in_x"] = fp if rng.integers(0, 2) else np.array(fp)
                elif c == "fixed_values_too_many":
                    kw["fixed_points_in_x"] = list(xs) + [float(xs[-1]) + 1.0] * int(rng.integers(1, 4))
                else:
                    kw["fixed_points_indices_in_x"] = list(range(len(xs))) + [0] * int(rng.integers(1, 4))
                info["kwargs"] = {k: (v if not isinstance(v, (list, np.ndarray)) else "<%d values>" % len(v)) for k, v in kw.items()}
                call = lambda: integral_matching_reference_stretch(xs, ys, ref_x, ref_y, **kw)
            elif c == "rule_integral_helper":
                b = bogus(rng, ("trapezoid", "rectangle"))
                info["method"] = b
                call = lambda: U.integral(x, y, b)
            elif c == "strategy_dispatcher":
                b = bogus(rng, ("closest", "lower", "higher"))
                info["strategy"] = b
                look = [[float(x[1])], [], [float(x[0]) - 1.0, float(x[-1]) + 1.0], np.array([]),
                        [float(v) for v in x[:3]]][int(rng.integers(0, 5))]
                info["lookup"] = look
                call = lambda: U.find_closest_element_indices_to_values(x, look, strategy=b) if rng.integers(0, 2) else \
                    U.find_closest_element_indices_to_values(x, look, b)
            elif c == "method_function":
                b = bogus(rng, ("linear", "constant", "cubic", "spline"))
                info["method"] = b
                call = lambda: process.interpolate(x, y, np.linspace(x[0], x[-1], 9), method=b)
            elif c == "dataset_name":
                from traffic_weaver.datasets import load_dataset
                b = ["sandvine_radio", "nope", "mix-it-rome_daily", "", "ams-ix_hourly"][int(rng.integers(0, 5))]
                info["name"] = b
                call = lambda: load_dataset(b)
            elif c == "truncate_function_inverted":
                a, b = sorted(rng.uniform(float(x[0]), float(x[-1]), 2))
                ratio = bool(rng.integers(0, 2))
                if ratio:
                    a, b = 0.2, 0.7
                eq = bool(rng.integers(0, 2))
                info.update({"left": b, "right": b if eq else a, "ratio": ratio})
                call = lambda: process.truncate(x, y, b, b if eq else a, ratio, ratio)
            else:
                # ---------------- Weaver classes: after a random valid history
                wv = Weaver(x.copy(), y.copy())
                need_match = c in ("rule_weaver_target", "rule_weaver_reference", "strategy_matching_weaver")
                info["history"] = history(rng, wv, 0, 5, allow=DOMAIN_ONLY if need_match else None)
                if need_match:
                    k = int(rng.choice([2, 3, 5]))
                    strat = R.ALL[int(rng.integers(0, 6))]
                    wv.recreate_from_average(k, rfa_class=R.cls(strat))
                    info["history"].append(["recreate_from_average", k, strat])
                wx, wy = wv.get()
                n = len(wx)
                if c == "n_below_2_weaver":
                    if rng.integers(0, 3) == 0:
                        # the factor is refused whatever is left of the series: a Weaver holding one sample only
                        if rng.integers(0, 2):
                            wv = Weaver(x[:1].copy(), y[:1].copy())
                            info["history"] = ["Weaver of one sample"]
                        else:
                            i_ = int(rng.integers(0, n))
                            wv.truncate_by_index(i_, i_ + 1)
                            info["history"].append(["truncate_by_index", i_, i_ + 1])
                    strat = R.ALL[int(rng.integers(0, 6))]
                    bad = [1, 0, -3, 1.5][int(rng.integers(0, 4))]
                    info.update({"strategy": strat, "n": bad})
                    call = lambda: wv.recreate_from_average(bad, rfa_class=R.cls(strat))
                elif c == "rule_weaver_target":
                    b = bogus(rng, ("trapezoid", "rectangle"))
                    info["rule"] = b
                    if rng.integers(0, 3) == 0:
                        x0_ = float(wx[0])
                        call = lambda: wv.integral_match(target_function_integral_method=b, fixed_points_in_x=[x0_])
                    else:
                        call = lambda: wv.integral_match(target_function_integral_method=b)
                elif c == "rule_weaver_reference":
                    b = bogus(rng, ("trapezoid", "rectangle"))
                    info["rule"] = b
                    call = lambda: wv.integral_match(reference_function_integral_method=b)
                elif c == "strategy_matching_weaver":
                    b = bogus(rng, ("closest", "lower", "higher"))
                    info["strategy"] = b
                    call = lambda: wv.integral_match(fixed_points_finding_strategy=b)
                elif c == "method_weaver":
                    b = bogus(rng, ("linear", "constant", "cubic", "spline"))
                    info["method"] = b
                    if rng.integers(0, 2):
                        call = lambda: wv.interpolate(n=int(rng.integers(4, 50)), method=b)
                    else:
                        call = lambda: wv.interpolate(new_x=np.linspace(wx[0], wx[-1], 11), method=b)
                elif c in ("truncate_inverted_values", "truncate_empty_values", "truncate_inverted_ratios"):
                    if c == "truncate_inverted_ratios":
                        a, b = sorted(rng.choice([0.0, 0.25, 0.5, 0.75, 1.0], 2, replace=False))
                        eq = bool(rng.integers(0, 3) == 0)
                        info.update({"left": float(b), "right": float(b if eq else a)})
                        call = lambda: wv.truncate_by_value(float(b), float(b if eq else a), True, True)
                    else:
                        a, b = sorted(rng.uniform(float(wx[0]), float(wx[-1]), 2))
                        right = b if c == "truncate_empty_values" else a
                        info.update({"left": float(b), "right": float(right)})
                        call = lambda: wv.truncate_by_value(float(b), float(right))
                elif c in ("slice_index_negative_start", "truncate_index_negative_start"):
                    s = -int(rng.integers(1, 4))
                    info["start"] = s
                    call = (lambda: wv.slice_by_index(s, None)) if c.startswith("slice") else (lambda: wv.truncate_by_index(s, None))
                elif c in ("slice_index_stop_beyond", "truncate_index_stop_beyond"):
                    s = n + int(rng.integers(1, 4))
                    info["stop"] = s
                    call = (lambda: wv.slice_by_index(0, s)) if c.startswith("slice") else (lambda: wv.truncate_by_index(0, s))
                elif c.startswith("slice_value"):
                    j = int(rng.integers(0, n - 1))
                    miss = float(wx[j]) + 0.41 * float(wx[j + 1] - wx[j])
                    beyond = float(wx[-1]) + 1.0
                    m = miss if rng.integers(0, 3) else beyond
                    if rng.integers(0, 3) == 0 and not np.any(np.asarray(wx) == 0):
                        # special value: an exact zero that is not a sample (falsy arguments must not mean "omitted")
                        m = miss = [0, 0.0, np.int64(0)][int(rng.integers(0, 3))]
                        beyond = float(wx[-1]) + 1.0 if float(wx[-1]) + 1.0 != 0 else float(wx[-1]) + 2.0
                    good_lo, good_hi = float(wx[0]), float(wx[-1])
                    args = {"slice_value_start_missing": (m if m < good_hi else miss, good_hi),
                            "slice_value_stop_missing": (good_lo, m),
                            "slice_value_both_missing": (miss, beyond)}[c]
                    info["args"] = [repr(v) for v in args]
                    call = lambda: wv.slice_by_value(*args)
                elif c in ("grid_first_point", "grid_last_point"):
                    g = np.linspace(float(wx[0]), float(wx[-1]), int(rng.integers(4, 30)))
                    d = float(wx[1] - wx[0]) * float(rng.choice([0.5, -0.5, 1e-9]))
                    if c == "grid_first_point":
                        g[0] = g[0] + (d if g[0] + d < g[1] else -abs(d))
                    else:
                        d2 = float(wx[-1] - wx[-2]) * float(rng.choice([0.5, -0.5, 1e-9]))
                        g[-1] = g[-1] + (d2 if g[-1] + d2 > g[-2] else abs(d2))
                    if rng.integers(0, 3) == 0:
                        # same range, other END POINTS: the grid built backwards, or its two ends exchanged
                        g = np.linspace(float(wx[0]), float(wx[-1]), int(rng.integers(4, 30)))
                        if rng.integers(0, 2):
                            g = g[::-1].copy()
                        else:
                            g[0], g[-1] = g[-1], g[0]
                        info["grid_order"] = "reversed_or_ends_exchanged"
                    if g[0] == wx[0] and g[-1] == wx[-1]:      # the tiny offset vanished in rounding: use a visible one
                        if c == "grid_first_point":
                            g[0] = float(wx[0]) - 0.5 * float(wx[1] - wx[0])
                        else:
                            g[-1] = float(wx[-1]) + 0.5 * float(wx[-1] - wx[-2])
                    method = ["linear", "constant", "cubic", "spline"][int(rng.integers(0, 4))]
                    gg = g if rng.integers(0, 2) else [float(v) for v in g]
                    info.update({"grid_ends": [float(g[0]), float(g[-1])], "x_ends": [float(wx[0]), float(wx[-1])]})
                    call = lambda: wv.interpolate(new_x=gg, method=method)
                elif c == "grid_neither_n_nor_grid":
                    call = lambda: wv.interpolate(method=["linear", "cubic"][int(rng.integers(0, 2))])
                else:
                    raise KeyError(c)
            before = snap(wv) if wv is not None else None
            twin = None
            if wv is not None:
                import copy
                twin = copy.deepcopy(wv)          # never sees the rejected request
            ctx.judged()
            ctx.monitor("c20:" + c)
            try:
                ret = call()
            except ValueError:
                pass
            except Exception as e:
                ctx.exception("wrong_exception_type:" + c, cid, e, {"case": info})
                return
            else:
                ctx.violation("invalid_request_accepted:" + c, cid, {"returned": type(ret).__name__, "case": info})
                return
            if wv is not None:
                ctx.monitor("c20:state_snapshot")
                after = snap(wv)
                if not same_state(before, after):
                    ctx.violation("rejected_operation_changed_state:" + c, cid, {"case": info})
                    return
                fresh = snap(Weaver(x.copy(), y.copy()))
                if not same_state(before[:4], fresh[:4]):
                    ctx.nontriv("c20", idx)
                # "untouched" also means: the object goes on behaving like one that never saw the rejected request
                cont = []
                for _ in range(int(rng.integers(1, 4))):
                    op = W.gen_op(rng, wv)
                    if op is None:
                        continue
                    cont.append(W.printable(op))
                    W.apply(wv, op)
                    W.apply(twin, op)
                    ctx.monitor("c20:twin_continuation")
                    if not same_state(snap(wv), snap(twin)):
                        ctx.violation("behaviour_after_rejection_differs_from_untouched_twin:" + c, cid,
                                      {"continuation": cont, "case": info})
                        return
            else:
                ctx.nontriv("c20", idx)
    except Exception as e:
        ctx.exception("harness_or_valid_history_raised", cid, e, {"case": info})
        return
    if idx % 1300 == 19:
        ctx.sample(info)


def run(ctx, spec):
    for idx in range(spec["start"], spec["start"] + spec["count"]):
        run_case(ctx, spec["kind"], idx)


def replay(ctx, case):
    run_case(ctx, case["kind"], case["idx"])
