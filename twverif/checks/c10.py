"""C10 - nearest-sample search returns the defined neighbour for every query."""
import itertools

import numpy as np

from .. import gen
from ..monitors import search_mon
from ..monitors.contracts import Installer, Slot

from . import _jobs  # noqa: E402

PROPERTY = "C10"
LEVEL = "exploration"
RULE = ("exhaustive part: every strictly increasing array over {0..6} (size<=5 quick, <=6 thorough) x every "
        "non-decreasing query multiset (size<=3 quick, <=4 thorough) over the half-integer lattice -1..7.5 x "
        "{lower,higher}x{fill,nofill} + closest, through both the concrete functions and the dispatcher, containers "
        "alternating list/ndarray; random part: float arrays of 1..40 elements with queries equal to, +-1 ulp "
        "beside, between and beyond elements. Every call is judged by a post-condition attached to the real "
        "function against a definitional scan. A case is non-trivial when at least one query falls strictly "
        "inside the array's range or the array has one element (boundary branch); distinct = distinct "
        "(array, queries, strategy, fill)."
        " Also: int64 arrays beyond 2**53 with queries x[i]+-k compared exactly, unsigned arrays with integer queries, documented defaults (fill_not_valid, strategy) by omission."
        " Round-4 classes: +-inf queries, integer queries that the array's unsigned storage type cannot hold, arrays of thousands of elements against 120..260 queries (product above 2**20), positional / named call forms."
        " Round-5 classes: narrow signed integer arrays spanning their type, strategy names that are not the interned literal, arrays spanning 50-60 binades with midpoint queries (exact-distance oracle; float-rounding ties = known finding K2), a 'threads' kind."
        " Round-6 classes: a 'huge' kind (66 000..90 000 elements, up to 70 000 queries; binary-search form of the oracle), element / query pairs of different precision (float32 or float16 elements vs Python floats, int64 beyond 2**53 vs floats, float64 vs large Python ints)."
        " Round-7 classes: the same question asked again after the caller wrote into the first answer (second answer judged, answers must not share memory)."
        " Round-8 classes: huge kind always asks inside the gaps before / after elements 2**15, 2**16, 50 000, 60 000; first use from several threads at once."
        " Round-9 classes: plain lists whose elements are NumPy scalars of the column's narrow type (list(float32_column)); huge sizes also between 2**15 and 2**16."
        " Round-10 classes: 64-bit integers of mixed signedness beyond 2**53 (uint64 elements against int64 / Python-int queries and the reverse).")
LEVEL_TEXT = ("Post-conditions on the four real search functions, judged against a definitional scan: exhaustive over a "
              "small lattice (every array / query multiset / strategy / fill combination) plus random float arrays "
              "with +-1 ulp queries. Exhaustive on the stated finite sub-space, sampled beyond it.")
LEVEL_NOTE = ("Trusts the 15-line definitional oracle (models/search.py) and CPython/NumPy comparison semantics; "
              "inputs restricted to the property's quantifier (strictly increasing array, non-empty sorted queries). "
              "'closest' is additionally judged by exact rational distances; disagreements that are pure float rounding "
              "of the two distances are the known finding K2 (KNOWN-FINDING line, exit 0).")
TECHNIQUE = "runtime post-condition monitor on the real functions vs definitional oracle; exhaustive small scope + random; thread-isolation monitor (concurrent vs sequential answers, first-use rounds with sys.monitoring yield injection)"
REQUIRED_MONITORS = ["threads:search", "threads:first_use:search", "threads:first_use_yields_injected", "c10:asked_twice", "search_post:lower", "search_post:higher", "search_post:closest"]
ASSUMPTIONS = ["queries non-empty and non-decreasing, array strictly increasing (the property's quantifier)",
               "empty query lists are outside the statement ('each query') and are not exercised"]
LATTICE = [v / 2.0 for v in range(-2, 16)]
COMBOS = [("lower", True), ("lower", False), ("higher", True), ("higher", False), ("closest", True)]
NPARTS = 16


def plan(tier, seed):
    return _plan(tier, seed) + _jobs.plan(tier)


def _plan(tier, seed):
    specs = [{"kind": "exhaustive", "part": p, "parts": NPARTS} for p in range(NPARTS)]
    n = 40000 if tier == "quick" else 1600000
    per = n // NPARTS
    specs += [{"kind": "random", "start": p * per, "count": per} for p in range(NPARTS)]
    specs += [{"kind": "huge", "start": 5 * p, "count": 5} for p in range(1 if tier == "quick" else 8)]
    specs.append({"kind": "suite"})
    return specs


def exhaustive(tier, merged):
    return ("all strictly increasing arrays of <=%d elements over {0..6} x all sorted query multisets of <=%d "
            "half-integers in [-1,7.5] x 5 (strategy, fill) combinations" % ((5, 3) if tier == "quick" else (6, 4)))


def _arrays(maxlen):
    out = []
    for k in range(1, maxlen + 1):
        out.extend(itertools.combinations(range(7), k))
    return out


def _call(sau, strategy, fill, x, q, via_dispatch, form=0):
    if form == 1:         # optional parameters positionally, in the documented order
        if via_dispatch:
            return sau.find_closest_element_indices_to_values(x, q, strategy, fill)
        if strategy == "lower":
            return sau.find_closest_lower_equal_element_indices_to_values(x, q, fill)
        if strategy == "higher":
            return sau.find_closest_higher_equal_element_indices_to_values(x, q, fill)
    if form == 2:         # everything by its documented name
        if via_dispatch:
            return sau.find_closest_element_indices_to_values(fill_not_valid=fill, lookup=q, strategy=strategy, x=x)
        if strategy == "lower":
            return sau.find_closest_lower_equal_element_indices_to_values(lookup=q, x=x, fill_not_valid=fill)
        if strategy == "higher":
            return sau.find_closest_higher_equal_element_indices_to_values(fill_not_valid=fill, x=x, lookup=q)
        return sau.find_closest_lower_or_higher_element_indices_to_values(lookup=q, x=x)
    if fill and (len(x) + len(q)) % 2 == 0:      # documented defaults: fill_not_valid=True, strategy='closest'
        if via_dispatch:
            return sau.find_closest_element_indices_to_values(x, q) if strategy == "closest" else \
                sau.find_closest_element_indices_to_values(x, q, strategy)
        if strategy == "lower":
            return sau.find_closest_lower_equal_element_indices_to_values(x, q)
        if strategy == "higher":
            return sau.find_closest_higher_equal_element_indices_to_values(x, q)
    if via_dispatch:
        return sau.find_closest_element_indices_to_values(x, q, strategy=strategy, fill_not_valid=fill)
    if strategy == "lower":
        return sau.find_closest_lower_equal_element_indices_to_values(x, q, fill_not_valid=fill)
    if strategy == "higher":
        return sau.find_closest_higher_equal_element_indices_to_values(x, q, fill_not_valid=fill)
    return sau.find_closest_lower_or_higher_element_indices_to_values(x, q)


def _one(ctx, sau, case, x, q, strategy, fill, via_dispatch, form=0, twice=False):
    Slot.case = case
    before = ctx.monitors.get("search_post:" + strategy, 0)
    try:
        first = _call(sau, strategy, fill, x, q, via_dispatch, form)
        if twice and isinstance(first, np.ndarray) and first.flags.writeable and first.size:
            # the caller adjusts the returned indices in place (idx += 1, clamp, offset) and asks the same question
            # again: the second answer (judged by the same post-condition) is its own array with the same content
            first += 7
            second = _call(sau, strategy, fill, x, q, via_dispatch, form)
            ctx.monitor("c10:asked_twice")
            if isinstance(second, np.ndarray) and np.shares_memory(first, second):
                ctx.violation("search:%s:answer_shared_between_requests" % strategy, case, {"x": x, "lookup": q})
    except Exception as e:
        ctx.exception("search:%s:raised" % strategy, case, e, {"x": x, "lookup": q, "fill": fill})
        ctx.judged()
        return
    # the dispatcher path evaluates two post-conditions (dispatcher + concrete); one execution either way
    if ctx.monitors.get("search_post:" + strategy, 0) > before:
        ctx.judged()


def run_exhaustive(ctx, sau, spec):
    maxlen, maxq = (5, 3) if ctx.tier == "quick" else (6, 4)
    arrays = _arrays(maxlen)
    multisets = []
    for k in range(1, maxq + 1):
        multisets.extend(itertools.combinations_with_replacement(LATTICE, k))
    idx = 0
    for ai, arr in enumerate(arrays):
        if ai % spec["parts"] != spec["part"]:
            continue
        for qi, qs in enumerate(multisets):
            as_array = (ai + qi) % 2 == 0
            x = np.array(arr) if as_array else list(arr)
            q = np.array(qs) if (ai + qi) % 3 == 0 else list(qs)
            nontrivial = len(arr) == 1 or any(arr[0] < v < arr[-1] for v in qs)
            for ci, (strategy, fill) in enumerate(COMBOS):
                via = (ai + qi + ci) % 2 == 1
                form = (ai + 2 * qi + ci) % 3
                case = {"kind": "exhaustive", "array": list(arr), "queries": list(qs), "strategy": strategy,
                        "fill": fill, "dispatch": via, "x_ndarray": as_array, "seed": ctx.seed, "form": form}
                _one(ctx, sau, case, x, q, strategy, fill, via, form)
                if nontrivial:
                    ctx.nontriv("ex", arr, qs, strategy, fill)
                ctx.count("exhaustive:%s:%s" % (strategy, "fill" if fill else "nofill"))
            if idx < 2 and qi == 37:
                ctx.sample({"x": list(arr), "queries": list(qs), "combos": "all 5"})
                idx += 1


def gen_huge(rng):
    """one sample per second for a day: more than 2**16 elements (and, in half of the cases, more than 2**16 queries)"""
    n = gen.huge_size(rng)
    x = np.cumsum(rng.uniform(0.5, 1.5, n)) + float(rng.normal(0, 100))
    k = int(rng.integers(66000, 70000)) if rng.integers(0, 2) else int(rng.integers(20, 200))
    picks = rng.integers(0, n, k)
    # always some questions right at round element numbers (inside the gaps before / after elements 2**15, 2**16, 50 000)
    edges = np.array([e for e in (2 ** 16 - 1, 2 ** 16, 2 ** 16 + 1, 2 ** 15 - 1, 2 ** 15, 49999, 50000, 60000) if e < n - 1])
    picks[:len(edges) * 2] = np.repeat(edges, 2)
    picks = np.sort(picks)
    qs = x[picks] + rng.choice([0.0, 0.2, -0.2, 0.45], k)
    qs[0], qs[-1] = min(qs[0], x[0] - 1.0), max(qs[-1], x[-1] + 1.0)
    return x, np.sort(qs)


def gen_random(rng, huge=False):
    if huge:
        return gen_huge(rng)
    n = int(rng.integers(1, 41))
    style = int(rng.integers(0, 6))
    if rng.integers(0, 40) == 0:
        # element and query of different precision: float32 / float16 elements against Python-float queries that the
        # narrow type would round onto an element, int64 elements beyond 2**53 against float queries, float64 elements
        # against large Python-int queries.  The oracle compares the Python scalars exactly.
        t = int(rng.integers(0, 3))
        if t == 0:
            dt = np.float32 if rng.integers(0, 3) else np.float16
            x = np.unique(np.round(rng.uniform(0, 4, n), 1).astype(dt))
            qs = np.sort(np.round(rng.uniform(-0.2, 4.2, int(rng.integers(1, 9))), 1))       # decimal values: not representable
            return x, [float(v) for v in qs]
        if t == 1:
            x = (2 ** 53 + np.cumsum(rng.integers(1, 4, n))).astype(np.int64)
            qs = np.sort(np.array([float(x[int(rng.integers(0, n))]) + float(rng.choice([0.0, 2.0, -2.0]))
                                   for _ in range(int(rng.integers(1, 9)))]))
            return x, [float(v) for v in qs]
        x = 2.0 ** 53 + 4.0 * np.cumsum(rng.integers(1, 4, n)).astype(float)
        qs = sorted(int(x[int(rng.integers(0, n))]) + int(rng.integers(-3, 4)) for _ in range(int(rng.integers(1, 9))))
        return x, qs
    if rng.integers(0, 400) == 0:
        # elements spanning more binades than a float has mantissa bits, queries next to the midpoint of two such elements:
        # the two distances differ by less than the rounding of their larger one
        e = int(rng.integers(50, 60))
        lo_v = -float(rng.choice([0.25, 0.5, 1.0, 3.0]))
        x = np.array([lo_v - 5.0, lo_v, 2.0 ** e, 2.0 ** (e + 3)])
        mid = 2.0 ** (e - 1)
        qs = np.sort(np.array([mid, np.nextafter(mid, np.inf), np.nextafter(mid, -np.inf), mid + lo_v / 2, 2.0 ** (e + 1)])
                     [rng.permutation(5)[:int(rng.integers(1, 6))]])
        return x, qs
    if rng.integers(0, 1500) == 0:
        # thousands of samples against a hundred or more queries (len(x) * len(lookup) above 2**20): the sizes at which
        # the search is used by integral matching on real series
        k = int(rng.integers(120, 261))
        n = int(rng.integers(int(1.1 * 2 ** 20 / k), int(1.1 * 2 ** 20 / k) + 3000))
        x = np.cumsum(rng.uniform(0.5, 1.5, n)) + float(rng.normal(0, 100))
        picks = np.sort(rng.integers(0, n, k))
        qs = x[picks] + rng.choice([0.0, 0.2, -0.2, 0.5, 0.7], k) * 0.5
        qs[0], qs[-1] = min(qs[0], x[0] - 1.0), max(qs[-1], x[-1] + 1.0)
        return x, np.sort(qs)
    if style == 5 and rng.integers(0, 2):
        # narrow SIGNED integer arrays that use the whole range of their type: the distance between a query and an element
        # does not fit the type (int8 50 - (-100)), nor does the sum of two elements
        dt = [np.int8, np.int16, np.int32][int(rng.integers(0, 3))]
        lo, hi = int(np.iinfo(dt).min), int(np.iinfo(dt).max)
        k = int(min(n, 12))
        x = np.unique(np.concatenate([[lo + int(rng.integers(0, 30)), hi - int(rng.integers(0, 30))],
                                      rng.integers(lo, hi, max(k - 2, 0))])).astype(dt)
        qs = np.sort(rng.integers(lo, hi, int(rng.integers(1, 9))))
        qs = qs.astype(dt) if rng.integers(0, 2) else qs.astype(np.int64)
        return x, qs
    if style == 5:
        # unsigned integer arrays with integer queries (differences of unsigned values wrap around instead of going negative)
        dt = [np.uint8, np.uint16, np.uint32, np.uint64][int(rng.integers(0, 4))]
        top = min(int(np.iinfo(dt).max), 10 ** 6)
        k = min(n, top // 3)
        x = np.sort(rng.choice(np.arange(1, top, max(1, top // 400)), size=max(1, min(k, 200)), replace=False)).astype(dt)
        qs = np.sort(rng.integers(0, top, int(rng.integers(1, 13))))
        if rng.integers(0, 2):
            return x, qs.astype(dt)
        qs = qs.astype(np.int64)
        if rng.integers(0, 2):
            # plain integers that the array's own storage type cannot hold: below zero and above its largest value
            far = np.array([-int(rng.integers(1, top)), int(np.iinfo(dt).max) + int(rng.integers(1, 1000))
                            if dt != np.uint64 else 2 ** 62], dtype=np.int64)
            qs = np.sort(np.concatenate([qs, far[:int(rng.integers(1, 3))]]))
        return x, qs
    if style == 4:
        # int64 nanosecond timestamps: values beyond 2**53, gaps and query offsets below the float64 spacing there
        x = 1_700_000_000_000_000_000 + np.cumsum(rng.integers(1, 400, n)).astype(np.int64)
        qs = np.sort(np.array([int(x[int(rng.integers(0, n))]) + int(rng.integers(-120, 121))
                               for _ in range(int(rng.integers(1, 13)))], dtype=np.int64))
        # the two sides in 64-bit types of different signedness (a uint64 column against Python ints / int64 bounds, or the
        # other way round): NumPy has no common integer type for that pair and would compare in float64
        t = int(rng.integers(0, 4))
        if t == 0:
            return x.astype(np.uint64), qs
        if t == 1:
            return x.astype(np.uint64), [int(v) for v in qs]
        if t == 2:
            return x, qs.astype(np.uint64)
        return x, qs
    if style == 0:
        x = np.cumsum(rng.lognormal(0, 1.5, n)) + rng.normal(0, 100)
    elif style == 1:
        x = np.sort(rng.choice(np.arange(-50, 50), size=min(n, 100), replace=False)).astype(float)
    elif style == 2:
        x = 1.7e9 + np.cumsum(rng.integers(1, 600, n)).astype(float)
    else:
        x = np.sort(rng.uniform(-1, 1, n))
        x = np.unique(x)
    n = len(x)
    qs = []
    k = int(rng.integers(1, 13))
    for _ in range(k):
        t = int(rng.integers(0, 10))
        i = int(rng.integers(0, n))
        if t >= 8:
            qs.append(-np.inf if t == 8 else np.inf)        # "beyond the elements", as far as it goes
        elif t == 0:
            qs.append(x[i])
        elif t == 1:
            qs.append(np.nextafter(x[i], np.inf))
        elif t == 2:
            qs.append(np.nextafter(x[i], -np.inf))
        elif t == 3 and n > 1:
            j = min(i, n - 2)
            qs.append((x[j] + x[j + 1]) / 2)          # exact tie when representable
        elif t == 4 and n > 1:
            j = min(i, n - 2)
            qs.append(x[j] + (x[j + 1] - x[j]) * rng.uniform(0, 1))
        elif t == 5:
            qs.append(x[0] - abs(rng.normal(0, 3)) - 1e-9)
        elif t == 6:
            qs.append(x[-1] + abs(rng.normal(0, 3)) + 1e-9)
        else:
            qs.append(rng.uniform(x[0] - 1, x[-1] + 1))
    qs = np.sort(np.array(qs, dtype=float))
    return x, qs


def run_random_case(ctx, sau, kind, idx):
    rng = ctx.rng(kind, idx)
    x, qs = gen_random(rng, huge=kind == "huge")
    strategy, fill = COMBOS[int(rng.integers(0, 5))]
    if kind == "huge":
        strategy, fill = COMBOS[idx % 5]
    via = bool(rng.integers(0, 2))
    cont = int(rng.integers(0, 5))
    xx = x if cont != 1 else [v.item() for v in x]
    qq = qs if (cont != 2 or isinstance(qs, list)) else [v.item() for v in qs]
    if cont == 3 and kind != "huge":
        # list(column): plain lists whose elements are still NumPy scalars of the column's (possibly narrow) type
        xx = list(x) if isinstance(x, np.ndarray) else xx
        qq = list(qs) if isinstance(qs, np.ndarray) and rng.integers(0, 2) else qq
        ctx.count("container:list_of_numpy_scalars")
    elif cont == 4 and kind != "huge" and isinstance(qs, np.ndarray):
        qq = list(qs)
    form = int(rng.integers(0, 3))
    case = ctx.case_id(kind, idx, strategy=strategy, fill=fill, dispatch=via)
    _one(ctx, sau, case, xx, qq, gen.fresh_str(rng, strategy), fill, via, form, twice=bool(rng.integers(0, 6) == 0))
    qf = np.asarray(qs, dtype=float)
    if len(x) == 1 or np.any((qf > float(x[0])) & (qf < float(x[-1]))):
        ctx.nontriv("rnd", idx, strategy, fill)
    ctx.count("random:%s:%s" % (strategy, "fill" if fill else "nofill"))
    if idx % 5000 == 1:
        ctx.sample({"x": x[:8], "queries": list(qs[:8]), "strategy": strategy, "fill": fill, "n": len(x)})


def run(ctx, spec):
    if spec["kind"] in ("threads", "threads_cold"):      # concurrent independent requests vs their sequential answers
        return _jobs.run(ctx, spec, ["search"])
    if spec["kind"] == "suite":     # the repository's own tests with the search post-conditions attached
        from .. import suite
        suite.run_suite(ctx, ["search:"])
        return
    import traffic_weaver.sorted_array_utils as sau
    inst = Installer()
    search_mon.install(inst)
    Slot.ctx = ctx
    if spec["kind"] == "exhaustive":
        run_exhaustive(ctx, sau, spec)
    else:
        for idx in range(spec["start"], spec["start"] + spec["count"]):
            run_random_case(ctx, sau, spec["kind"], idx)
    inst.uninstall()


def replay(ctx, case):
    if case["kind"] in ("threads", "threads_cold"):
        return _jobs.run_case(ctx, ["search"], case["idx"], cold=case["kind"] == "threads_cold")
    import traffic_weaver.sorted_array_utils as sau
    inst = Installer()
    search_mon.install(inst)
    Slot.ctx = ctx
    if case["kind"] == "exhaustive":
        x = np.array(case["array"]) if case.get("x_ndarray") else list(case["array"])
        _one(ctx, sau, case, x, list(case["queries"]), case["strategy"], case["fill"], case["dispatch"], case.get("form", 0))
    else:
        run_random_case(ctx, sau, case["kind"], case["idx"])
    inst.uninstall()
