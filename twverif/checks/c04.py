"""C04 - recreated series has an exact n-fold grid structure."""
import numpy as np
from scipy.interpolate import CubicSpline, PchipInterpolator

from . import _rfa as R
from .. import gen
from ..core import fp_watch
from ..monitors import rfa_mon
from ..monitors.contracts import Installer, Slot

PROPERTY = "C04"
LEVEL = "exploration"
LEVEL_TEXT = ("Post-condition attached to every real <Strategy>.rfa(): two 1-D float ndarrays of length (m-1)*n+1, "
              "finite, every n-th abscissa bit-identical to the input, equal strictly positive gaps inside each "
              "interval; plus a rejection monitor for n < 2. Driven over six strategies and user sampling "
              "functions x m x n x container x spacing, directly and through Weaver.recreate_from_average. Sampled.")
LEVEL_NOTE = "Trusts NumPy's array_equal / isfinite; equal spacing judged at 1e-9 relative (conditioning-aware)."
TECHNIQUE = "runtime post-condition (icontract ensure) on the real rfa() methods + rejection monitor, generated workloads"
RULE = ("case = strategy (6 + FunctionRFA with suppliers returning float / 0-d array / numpy scalar) x m in 2..60 x "
        "n in 2..64 (int or numpy.int64) x x class (uniform, non-uniform, integer dtype, list, epoch...) x y class x "
        "strategy parameters; route direct or via Weaver. rejection cases: n in {1, 0, -2, 1.5} for every strategy. "
        "non-trivial: non-constant y and m >= 3 or non-uniform x; distinct by (case index) fingerprint of inputs."
        " Also: user samplers that accept arrays without mapping them elementwise, n as numpy.int64, a second rfa() on the same object after the caller modified the first result, int32 / Series / tuple containers."
        " Round-4 classes: sampling function handed over as supplier, supplier + sampling_function_supplier_kwargs, or FunctionRFA subclass overriding _get_sampling_function; constructor parameters positionally in the documented order or by name; n as NumPy integer scalar of any width; series of 1001..1800 averages."
        " Round-5 classes: suppliers that are classes, functools.partial objects, bound methods or callable instances; a negative-zero abscissa (sign compared)."
        " Round-6 classes: any RuntimeWarning emitted while answering ordinary finite input is a violation (what a caller running with warnings as errors or numpy.seterr(all='raise') would get instead of a result)."
        " Round-7 classes: the abscissae in any container (also collections.deque, array.array, byte-swapped, negative stride)."
        " Round-8 classes: sampling functions that are objects (numpy.poly1d of degree 0 - falsy - and 2, a callable whose truth value is False); strategies as user classes derived from the library's (a keyword of their own / pass-through constructors)."
        " Round-9 classes: sampling functions that are finite everywhere but raise overflow / divide flags on the way (steep logistic, logarithm with a floor); huge sizes also between 2**15 and 2**16."
        " Round-10 classes: the request served just before asked for equal abscissae whose zero has the other sign.")
REQUIRED_MONITORS = ["rfa_post", "c04:reject"]
ASSUMPTIONS = ["x strictly increasing and finite, y finite, strategy parameters in the documented ranges"]
NSHARDS = 16
SUPPLIERS = ["float", "zero_d", "npscalar", "pchip", "const", "reduce", "branching", "poly1d_deg0", "poly1d_deg2", "falsy_object", "logistic", "log_floor"]


def plan(tier, seed):
    n = 10000 if tier == "quick" else 600000
    return [{"kind": "random", "start": p * (n // NSHARDS), "count": n // NSHARDS} for p in range(NSHARDS)] + \
        [{"kind": "huge", "start": 4 * p, "count": 4} for p in range(2 if tier == "quick" else 8)] + [{"kind": "suite"}]


def supplier(kind):
    def make(x, y):
        # documented contract: f(float) -> float.  Some of these accept an array without complaint but do not
        # map it elementwise (a strategy that calls f once with the whole grid would silently get garbage).
        if kind == "const":
            c = float(np.mean(y))
            return lambda t: c
        # sampling functions that are OBJECTS: the degree-0 member of a polynomial sweep (numpy.poly1d has a length,
        # 0 for a constant, so it is falsy), a quadratic fit, and a callable whose truth value is False
        if kind == "poly1d_deg0":
            return np.poly1d([float(np.mean(y))])
        if kind == "poly1d_deg2":
            xa = np.asarray(x, dtype=float)
            return np.poly1d(np.polyfit((xa - xa[0]) / max(float(xa[-1] - xa[0]), 1e-300), np.asarray(y, dtype=float), min(2, len(xa) - 1))) \
                if len(xa) >= 2 else np.poly1d([float(np.mean(y))])
        if kind == "falsy_object":
            return _Falsy(float(np.mean(y)))
        # finite everywhere, but not flag-free on the way: a steep logistic ramp (exp overflows, 1 / inf = 0) and a
        # logarithm with a floor (log of a non-positive number is -inf / nan before the floor applies)
        if kind == "logistic":
            xa = np.asarray(x, dtype=float)
            t0, tau = float(xa[len(xa) // 2]), max(float(xa[-1] - xa[0]), 1e-300) / 4000.0
            lo_, hi_ = float(np.min(y)), float(np.max(y))
            return lambda t: lo_ + (hi_ - lo_) / (1.0 + np.exp(-(np.float64(t) - t0) / tau))
        if kind == "log_floor":
            x0_ = float(np.asarray(x, dtype=float)[0])
            return lambda t: float(np.fmax(np.log10(np.float64(t) - x0_), -3.0))
        if kind == "reduce":
            xa, ya = np.asarray(x, dtype=float), np.asarray(y, dtype=float)
            return lambda t: float(np.mean(ya[np.clip(np.searchsorted(xa, t), 0, len(ya) - 1)]))
        if kind == "branching":
            xa, ya = np.asarray(x, dtype=float), np.asarray(y, dtype=float)
            mid = float(xa[len(xa) // 2])
            return lambda t: float(ya[0]) if t < mid else float(ya[-1])
        cs = CubicSpline(x, y) if kind != "pchip" else PchipInterpolator(x, y)
        if kind == "float":
            return lambda t: float(cs(t))
        if kind == "npscalar":
            return lambda t: np.float64(cs(t))
        return lambda t: cs(t)
    return make


class _Falsy:
    """a sampling function object with an empty-container truth value (e.g. a fitted model with no free terms)"""

    def __init__(self, c):
        self.c = c

    def __call__(self, t):
        return self.c + 0.0 * t

    def __bool__(self):
        return False


class _Factory:
    """a supplier that is an object: usable through its bound method or through __call__"""

    def __init__(self, inner):
        self.inner = inner

    def build(self, xa, ya):
        return self.inner(xa, ya)

    def __call__(self, xa, ya):
        return self.inner(xa, ya)


class _SupplierClass:
    """a supplier that is a CLASS: calling it with (x, y) constructs the sampling function object"""
    maker = None

    @classmethod
    def bind(cls, inner):
        return type("BoundSupplier", (cls,), {"maker": staticmethod(inner)})

    def __init__(self, xa, ya):
        self.f = type(self).maker(xa, ya)

    def __call__(self, t):
        return self.f(t)


def run_case(ctx, kind_, idx):
    from traffic_weaver import Weaver, rfa
    rng = ctx.rng(kind_, idx)
    cid = ctx.case_id(kind_, idx)
    Slot.case = cid
    strat = (R.ALL + ["FunctionRFA"])[int(rng.integers(0, 7))]
    x, y, meta = R.gen_series(rng, 2, 60, ties_share=0.25, long_share=R.LONG_SHARE,
                              force_m=gen.huge_size(rng) if kind_ == "huge" else None)
    n = R.gen_n(rng)
    if kind_ == "huge":           # a day of per-second averages, smallest factors, every strategy in turn
        n = int(rng.choice([2, 3]))
        strat = (R.ALL + ["FunctionRFA"])[idx % 7]
    kw, _a = R.gen_params(rng, strat if strat != "FunctionRFA" else "CubicSplineRFA", n)
    klass = None
    if strat == "FunctionRFA":
        # the three documented ways of handing over a sampling function: a supplier, a supplier with its own keyword
        # arguments, and a subclass overriding _get_sampling_function() (then no supplier is given at all)
        sk = SUPPLIERS[int(rng.integers(0, len(SUPPLIERS)))]
        route = ["supplier", "supplier_kwargs", "subclass"][int(rng.integers(0, 3))]
        make = supplier(sk)
        # the supplier is "a callable": a function, a lambda - or a class, a functools.partial, a bound method, an
        # instance with __call__
        ck = ["function", "class", "partial", "bound_method", "callable_instance"][int(rng.integers(0, 5))]
        if route == "supplier" and ck != "function":
            inner = make
            if ck == "class":
                make = PchipInterpolator if sk == "pchip" else CubicSpline if sk in ("zero_d",) else _SupplierClass.bind(inner)
            elif ck == "partial":
                import functools
                make = functools.partial(lambda xa, ya, _f=None: _f(xa, ya), _f=inner)
            elif ck == "bound_method":
                make = _Factory(inner).build
            else:
                make = _Factory(inner)
            meta["supplier_callable"] = ck
        if route == "supplier":
            kw = {"sampling_function_supplier": make}
        elif route == "supplier_kwargs":
            lift = float(rng.choice([0.0, 1.5]))

            def with_kwargs(xa, ya, lift, tag=None):
                f = make(xa, ya)
                return (lambda t: f(t) + lift) if lift else f
            kw = {"sampling_function_supplier": with_kwargs,
                  "sampling_function_supplier_kwargs": {"lift": lift, "tag": "user"} if rng.integers(0, 2) else {"lift": lift}}
        else:
            class UserRFA(rfa.FunctionRFA):
                def _get_sampling_function(self):
                    return make(self.x, self.y)
            klass, kw = UserRFA, {}
        meta["supplier"] = sk
        meta["supplied_by"] = route
        ctx.count("sampling_function_via:" + route)
    if np.any(np.asarray(x) == 0.0) and rng.integers(0, 2):
        x = np.array(x, dtype=float)
        x[x == 0.0] = -0.0               # an abscissa that is a negative zero (a rounded small negative time offset)
        meta["xcls"] = str(meta["xcls"]) + "+negative_zero"
    n_arg, _nt = gen.count_arg(rng, n)
    xin, xk = gen.as_container(rng, x)
    x = np.asarray(xin, dtype=float)        # what the library is given (an integer container cannot hold a negative zero)
    yin, yk = gen.as_container(rng, y)
    meta.update({"xcont": xk, "ycont": yk, "n_type": type(n_arg).__name__})
    via_weaver = bool(rng.integers(0, 3) == 0)
    # ---- rejection of n < 2
    if rng.integers(0, 6) == 0:
        bad_n = [1, 0, -2, 1.5][int(rng.integers(0, 4))]
        ctx.judged()
        ctx.monitor("c04:reject")
        ctx.count("reject:n=%s" % bad_n)
        try:
            if via_weaver:
                Weaver(xin, yin).recreate_from_average(bad_n, rfa_class=klass or R.cls(strat), **kw)
            else:
                (klass or R.cls(strat))(xin, yin, bad_n, **kw).rfa()
        except ValueError:
            ctx.nontriv("reject", strat, bad_n, idx)
            return
        except Exception as e:
            ctx.exception("n_below_2_wrong_exception", cid, e, {"n": bad_n, "case": R.brief(strat, x, y, n, kw, meta)})
            return
        ctx.violation("n_below_2_accepted", cid, {"n": bad_n, "case": R.brief(strat, x, y, n, kw, meta)})
        return
    if np.any(x == 0.0) and rng.integers(0, 2):
        # the request served just before this one asked for the same abscissae, except that its zero had the other sign
        # (0.0 == -0.0 and both hash alike: an answer remembered per "equal" grid would carry the wrong zero over)
        xt = np.array(x, dtype=float)
        xt[xt == 0.0] = -xt[xt == 0.0]
        try:
            rfa.PiecewiseConstantRFA(xt, np.array(y, dtype=float), int(n)).rfa()
            meta["earlier_request_with_the_other_zero"] = True
            ctx.count("earlier_request_with_the_other_zero")
        except Exception:
            pass
    before = ctx.monitors.get("rfa_post", 0)
    try:
        with fp_watch(ctx) as fpw:
            if via_weaver:
                wv = Weaver(xin, yin).recreate_from_average(n_arg, rfa_class=klass or R.cls(strat), **kw)
                xs, ys = wv.get()
            elif rng.integers(0, 4) == 0:
                obj = R.build(rng, strat, xin, yin, n_arg, kw, klass)
                xs0, ys0 = obj.rfa()
                if isinstance(xs0, np.ndarray) and isinstance(ys0, np.ndarray):
                    xs0 += 0.5                     # caller modifies what it was given ...
                    ys0 *= 2.0
                xs, ys = obj.rfa()                 # ... a second request must still return the exact grid
                meta["second_call_on_same_object"] = True
            else:
                xs, ys = R.build(rng, strat, xin, yin, n_arg, kw, klass).rfa()
    except Exception as e:
        ctx.judged()
        ctx.exception("raised_on_admissible_input", cid, e, {"case": R.brief(strat, x, y, n, kw, meta)})
        return
    ctx.judged()
    if fpw.tripped:
        # the values are judged below; a caller running with warnings as errors or numpy.seterr(all="raise") would not
        # have got any - the unchanged code answers ordinary finite input without a single floating-point warning
        ctx.violation("floating_point_warning_on_ordinary_input", cid, {"warnings": fpw.tripped[:4], "case": R.brief(strat, x, y, n, kw, meta)})
        return
    if ctx.monitors.get("rfa_post", 0) == before:
        ctx.count("post_condition_not_reached")
    # what the caller finally sees (also covers the Weaver route, where get() is the observation point)
    rfa_mon.judge_structure(ctx, cid, np.asarray(x, dtype=float), n, xs, ys,
                            "Weaver.get" if via_weaver else "return value")
    ctx.count("strategy:%s" % strat)
    ctx.count("route:%s" % ("weaver" if via_weaver else "direct"))
    if (meta["ycls"] != "constant" and meta["m"] >= 3) or meta["xcls"] in ("nonuniform", "negative"):
        ctx.nontriv("c04", idx, strat)
    if idx % 2500 == 3:
        ctx.sample(R.brief(strat, x, y, n, {k: v for k, v in kw.items() if not callable(v)}, meta))


def run(ctx, spec):
    if spec["kind"] == "suite":     # the repository's own tests with the rfa() post-condition attached
        from .. import suite
        suite.run_suite(ctx, ["structure", "nth_abscissa", "abscissae_not", "gaps_not"])
        return
    inst = Installer()
    rfa_mon.install(inst)
    Slot.ctx = ctx
    for idx in range(spec["start"], spec["start"] + spec["count"]):
        run_case(ctx, spec["kind"], idx)
    inst.uninstall()


def replay(ctx, case):
    inst = Installer()
    rfa_mon.install(inst)
    Slot.ctx = ctx
    run_case(ctx, case["kind"], case["idx"])
    inst.uninstall()
