"""Shared workload and oracles for the integral-matching properties C01 and C03."""
import math

import numpy as np

from .. import callform, gen, tol
from ..models import integrate as I
from ..models import search as S

RULES = ["trapezoid", "rectangle"]
GSHARE = 0.0      # share of the GLOBAL magnitude admitted into every interval's scale: none (see judge_c01)
ALPHAS = [0.25, 0.5, 1.0, 2.0, 3.7]


# ------------------------------------------------------------------------------------------ generation
def _pick_fixed(rng, m, hug_ends=None, many=False):
    """sorted fixed indices with gaps >= 2 (at least one interior sample per interval)"""
    if many:        # 70..260 fixed points on every second sample slot
        k = many
        idx = np.sort(rng.choice(np.arange((m + 1) // 2), size=k, replace=False)) * 2
        if hug_ends or (hug_ends is None and rng.integers(0, 3) == 0):
            idx[0] = 0
            if (m - 1) - idx[-2] >= 2:
                idx[-1] = m - 1
        return [int(i) for i in idx]
    kmax = (m - 1) // 2 + 1
    k = int(rng.integers(2, max(3, min(kmax, 12) + 1)))
    k = min(k, kmax)
    for _ in range(50):
        idx = np.sort(rng.choice(np.arange(m), size=k, replace=False))
        if np.all(np.diff(idx) >= 2):
            break
    else:
        start = int(rng.integers(0, max(1, m - 2 * (k - 1))))
        idx = start + 2 * np.arange(k)
        idx = idx[idx < m]
    if hug_ends or (hug_ends is None and rng.integers(0, 3) == 0):
        idx = idx.copy()
        if idx[1] - 0 >= 2:
            idx[0] = 0
        if (m - 1) - idx[-2] >= 2:
            idx[-1] = m - 1
    return [int(i) for i in idx]


def _gap(x, i, side):
    if side < 0:
        return x[i] - x[i - 1] if i > 0 else None
    return x[i + 1] - x[i] if i < len(x) - 1 else None


def gen_case(rng, max_m=1000, small=False, weaver=False, large=False, huge=False):
    """Build one admissible matching problem.  Returns a dict with everything needed to call the code.
    large: a week of hourly averages against minute samples - thousands of samples x a hundred or more reference
    points (len(x) * len(x_ref) well above 2**20), the sizes the library is used at"""
    many = 0
    if huge:            # a day of per-second samples matched against a handful of reference points
        m = gen.huge_size(rng)
    elif large:
        many = int(rng.integers(70, 261))
        m = int(rng.integers(max(5000, int(1.1 * 2 ** 20 / many)), 18001))
    elif small:
        m = int(rng.integers(3, 9))
    else:
        m = int(min(max_m, max(3, round(math.exp(rng.uniform(math.log(3), math.log(max_m)))))))
    x, xc = gen.gen_x(rng, m)
    if m <= 80 and rng.integers(0, 12) == 0:
        mixed = gen.mixed_steps_x(rng, m)
        if mixed is not None:
            x, xc = mixed
    y, yc = gen.gen_y(rng, m)
    idx = _pick_fixed(rng, m, hug_ends=True if weaver else None, many=many)
    if huge and rng.integers(0, 2):
        # a day of per-second samples matched against the daily (or half-day) mean: two or three fixed points, so that ONE
        # interval holds (nearly) all samples - more than 2**15 or 2**16 of them
        a_, b_ = int(rng.integers(0, 4)), m - 1 - int(rng.integers(0, 4))
        idx = [a_, b_] if rng.integers(0, 2) else [a_, a_ + int(rng.integers(50, 400)), b_]
    force_top = None
    if m > 130 and not large and not weaver and rng.integers(0, 10) == 0:
        # the last fixed point exactly at a narrow index type's maximum (int8: 127, uint8: 255)
        top = 127 if (m <= 256 or rng.integers(0, 2)) else 255
        keep = [i for i in idx if i <= top - 2]
        if keep and top < m:
            idx, force_top = keep + [top], top
    K = len(idx)
    weaver = weaver and idx[0] == 0 and idx[-1] == m - 1
    mode = ["search", "positions", "indices"][int(rng.integers(0, 3))]
    if force_top is not None:
        mode = "indices"
    strategy = ["closest", "lower", "higher"][int(rng.integers(0, 3))]
    if large and rng.integers(0, 2):
        mode, strategy = ("search", "closest") if rng.integers(0, 2) else ("positions", strategy)
    on_grid = True if weaver else bool(rng.integers(0, 2))
    xr = np.array([x[i] for i in idx], dtype=float)
    extras = 0
    same_grid = False
    if mode == "search":
        if not on_grid:
            for k, i in enumerate(idx):
                gl, gr = _gap(x, i, -1), _gap(x, i, +1)
                if strategy == "closest":
                    side = int(rng.integers(0, 2))
                    g = gl if side == 0 else gr
                    if g is None:  # beyond the end of the data
                        d = float(rng.uniform(0, 3)) * (gr if gl is None else gl)
                        xr[k] = x[i] - d if gl is None else x[i] + d
                    else:
                        d = float(rng.uniform(0, 0.45)) * g
                        xr[k] = x[i] - d if side == 0 else x[i] + d
                elif strategy == "lower":
                    if gr is None:
                        xr[k] = x[i] + float(rng.uniform(0, 3)) * gl
                    elif gl is None and rng.integers(0, 2):
                        xr[k] = x[i] - float(rng.uniform(0, 3)) * gr    # below the range -> filled with index 0
                    else:
                        xr[k] = x[i] + float(rng.uniform(0, 0.95)) * gr
                else:  # higher
                    if gl is None:
                        xr[k] = x[i] - float(rng.uniform(0, 3)) * gr
                    elif gr is None and rng.integers(0, 2):
                        xr[k] = x[i] + float(rng.uniform(0, 3)) * gl
                    else:
                        xr[k] = x[i] - float(rng.uniform(0, 0.95)) * gl
        x_ref = xr
    else:
        # matched reference points near the fixed points, optional unmatched extras far from every fixed point
        if not on_grid:
            for k, i in enumerate(idx):
                gl, gr = _gap(x, i, -1), _gap(x, i, +1)
                g = min(v for v in (gl, gr) if v is not None)
                xr[k] = x[i] + float(rng.uniform(-0.2, 0.2)) * g
        pts = list(xr)
        if rng.integers(0, 2):
            for k in range(K - 1):
                lo, hi = x[idx[k]], x[idx[k + 1]]
                for _ in range(int(rng.integers(0, 3))):
                    # between two fixed points, at least 0.3 of the span away from both
                    pts.append(lo + (hi - lo) * float(rng.uniform(0.3, 0.7)))
                    extras += 1
            if rng.integers(0, 3) == 0 and not weaver:
                pts.append(x[idx[0]] - (x[idx[1]] - x[idx[0]]) * float(rng.uniform(0.5, 2)))
                pts.append(x[idx[-1]] + (x[idx[-1]] - x[idx[-2]]) * float(rng.uniform(0.5, 2)))
                extras += 2
        x_ref = np.unique(np.array(pts, dtype=float))
        if rng.integers(0, 10) == 0 and not large and not huge:
            # the reference is a series on the very grid of the input (a processed series re-matched to its unprocessed
            # original) and the fixed points are designated explicitly: every other sample is an unmatched reference point
            x_ref = np.array(x, dtype=float).copy()
            on_grid, same_grid, extras = True, True, m - K
    y_ref, _ = gen.gen_y(rng, len(x_ref), yc if rng.integers(0, 2) else None)
    if yc == "tiny":
        y_ref = np.abs(y_ref) / max(np.max(np.abs(y_ref)), 1e-300) * 5e-9
    elif yc == "large":
        y_ref = y_ref / max(np.max(np.abs(y_ref)), 1e-300) * 5e8
    burst = None
    if len(x_ref) >= 4 and rng.integers(0, 8) == 0:
        # "burst then idle": one stretch of the reference (or of the input) is many orders of magnitude above the
        # rest of the SAME series - every interval's integral is its own, whatever its neighbours carry
        L = float(rng.choice([1e7, 1e9, 1e12, 2.0 ** 55]))
        which = int(rng.integers(0, 3))
        burst = {"level": L, "in": ["reference", "input", "both"][which]}
        if which in (0, 2):
            p = int(rng.integers(0, len(x_ref) - 2))
            q = p + int(rng.integers(1, 3))
            y_ref = np.array(y_ref, dtype=float)
            y_ref[p:q] = (np.abs(y_ref[p:q]) / max(float(np.max(np.abs(y_ref))), 1e-300) + 1.0) * L
        if which in (1, 2):
            p = int(rng.integers(0, m - 2))
            q = p + int(rng.integers(1, max(2, m // 4)))
            y = np.array(y, dtype=float)
            y[p:q] = (np.abs(y[p:q]) / max(float(np.max(np.abs(y))), 1e-300) + 1.0) * L
    int32 = False
    if burst is None and not weaver and np.all(x == np.round(x)) and np.all(x_ref == np.round(x_ref)) \
            and float(np.max(np.abs(x))) < 2.0 ** 31 - 1 and float(np.max(np.abs(x_ref))) < 2.0 ** 31 - 1 \
            and rng.integers(0, 3) == 0:
        # a table read with 32-bit integer columns: epoch seconds and counters around 1e6 - every single value fits,
        # their products (value x step) and sums (x[0] + x[-1]) do not
        y_ref = rng.integers(5 * 10 ** 5, 2 * 10 ** 6, len(x_ref)).astype(float)
        int32 = True
    alpha = float(ALPHAS[int(rng.integers(0, 5))]) if rng.integers(0, 4) else float(rng.uniform(0.1, 6.0))
    perm = None
    if mode != "search" and rng.integers(0, 3) == 0:
        perm = [int(v) for v in rng.permutation(K)]
        if rng.integers(0, 2) and K + 1 <= m:
            perm.append(int(rng.integers(0, K)))          # one fixed point listed twice
    alpha_arg = None
    if rng.integers(0, 6) == 0:
        # the exponent taken from a float32 / float16 parameter grid: a NumPy scalar narrower than the data
        at = np.float32 if rng.integers(0, 3) else np.float16
        alpha_arg = at(alpha)
        alpha = float(alpha_arg)
    idx_dtype = None
    if force_top is not None:
        idx_dtype = "int8" if force_top == 127 else "uint8"
    if idx_dtype is None and mode == "indices" and rng.integers(0, 4) == 0:
        # fixed-point indices held in a compact integer array (the result of np.flatnonzero(...).astype(...)): every index
        # fits the type (the largest may be the type's maximum), the LENGTH of the series need not
        fits = [t for t in (np.uint8, np.int8, np.int16, np.uint16, np.int32, np.uint32, np.uint64) if max(idx) <= np.iinfo(t).max]
        if fits:
            idx_dtype = np.dtype(fits[int(rng.integers(0, len(fits)))]).name
    both = None
    if mode == "indices" and rng.integers(0, 4) == 0:
        other = sorted(set(int(v) for v in rng.choice(np.arange(m), size=min(m, max(2, K)), replace=False)))
        both = other if other != sorted(idx) else None
    case = {"x": x, "y": y, "x_ref": x_ref, "y_ref": y_ref, "idx": idx, "mode": mode, "both_given": both, "alpha_arg": alpha_arg, "idx_dtype": idx_dtype, "strategy": strategy, "perm": perm,
            "on_grid": on_grid, "same_grid": same_grid, "extras": extras, "alpha": alpha,
            "target_rule": RULES[int(rng.integers(0, 2))], "ref_rule": RULES[int(rng.integers(0, 2))],
            "xcls": xc, "ycls": yc, "burst": burst, "int32": int32, "m": m, "K": K, "weaver": bool(weaver),
            "omit_defaults": bool(rng.integers(0, 2)), "strategy_with_explicit": bool(rng.integers(0, 2))}
    return case


def call_args(case, containers=None):
    """keyword arguments for integral_matching_reference_stretch"""
    kw = {"target_function_integral_method": case["target_rule"],
          "reference_function_integral_method": case["ref_rule"],
          "alpha": case["alpha"] if case.get("alpha_arg") is None else case["alpha_arg"]}
    if case.get("omit_defaults"):
        # documented defaults: trapezoid target, rectangle reference, alpha 1.0, strategy 'closest'
        if kw["target_function_integral_method"] == "trapezoid":
            del kw["target_function_integral_method"]
        if kw["reference_function_integral_method"] == "rectangle":
            del kw["reference_function_integral_method"]
        if kw["alpha"] == 1.0:
            del kw["alpha"]
    if case["mode"] == "search":
        if not (case.get("omit_defaults") and case["strategy"] == "closest"):
            kw["fixed_points_finding_strategy"] = case["strategy"]
    elif case["mode"] == "positions":
        kw["fixed_points_in_x"] = [float(case["x"][i]) for i in _order(case)]
    else:
        kw["fixed_points_indices_in_x"] = list(_order(case))
        if case.get("idx_dtype"):
            kw["fixed_points_indices_in_x"] = np.array(kw["fixed_points_indices_in_x"], dtype=case["idx_dtype"])
        if case.get("both_given"):
            # documented: when indices are set, the fixed points are "set according to" them - positions given next
            # to them (here: other samples of x) must not change the outcome
            kw["fixed_points_in_x"] = [float(case["x"][i]) for i in case["both_given"]]
    if case["mode"] != "search" and case.get("strategy_with_explicit"):
        # documented: the strategy is only used "if fixed points are not specified" - it must be inert here
        kw["fixed_points_finding_strategy"] = case["strategy"]
    return kw


def _order(case):
    """explicitly given fixed points are a SET: the caller may list them in any order and repeat some"""
    idx = list(case["idx"])
    perm = case.get("perm")
    if perm:
        idx = [idx[j] for j in perm]
    return idx


# ------------------------------------------------------------------------------------------ oracle side
def resolve(case):
    """Independent resolution of fixed points and of the matched reference points.
    Returns (fixed_indices, ref_indices) or None when the case is outside the property's quantifier."""
    x = [float(v) for v in case["x"]]
    xr = [float(v) for v in case["x_ref"]]
    if case["mode"] == "search":
        fi = S.search(x, xr, case["strategy"], True)
        if any(b <= a for a, b in zip(fi, fi[1:])):
            return None
        ri = list(range(len(xr)))
    else:
        fi = list(case["idx"])
        ri = [S.closest(xr, x[i]) for i in fi]
        if any(b <= a for a, b in zip(ri, ri[1:])):
            return None
    if any(b - a < 2 for a, b in zip(fi, fi[1:])):
        return None
    return fi, ri


def weights(x, a, b, alpha):
    c = (x[a] + x[b]) / 2.0
    width = x[b] - x[a]
    return [1.0 - (2.0 * abs(c - x[i]) / width) ** alpha for i in range(a, b + 1)]


def weight_mass(x, a, b, alpha, rule):
    w = weights(x, a, b, alpha)
    if rule == "trapezoid":
        return math.fsum((w[i] + w[i + 1]) / 2.0 * (x[a + i + 1] - x[a + i]) for i in range(b - a))
    return math.fsum(w[i] * (x[a + i + 1] - x[a + i]) for i in range(b - a))


def yhat_estimates(case, res, fi):
    """|shift scaling factor| of every interval, recovered from the interior displacements (disp_i = y_hat * w_i).
    The end weights are 1 - (1 +- k*eps)**alpha, i.e. zero only to rounding, so a fixed point legitimately moves by
    about eps * max(1, alpha) * (1 + |x|/width) * |y_hat| - which is large when all interior weights are small."""
    x = [float(v) for v in case["x"]]
    y = [float(v) for v in case["y"]]
    out = []
    for k in range(len(fi) - 1):
        a, b = fi[k], fi[k + 1]
        w = weights(x, a, b, case["alpha"])[1:-1]
        est = 0.0
        for wi, i in zip(w, range(a + 1, b)):
            if wi > 0:
                est = max(est, abs(res[i] - y[i]) / wi)
        out.append(est)
    return out


def end_leak(case, fi, yhat, k):
    """bound on what rounding of the end weights of interval k may add to a fixed point (see yhat_estimates)"""
    x = case["x"]
    xmax = max(abs(float(x[0])), abs(float(x[-1])))
    if not 0 <= k < len(yhat):
        return 0.0
    wk = float(x[fi[k + 1]]) - float(x[fi[k]])
    return 64 * tol.EPS * max(1.0, case["alpha"]) * (1.0 + xmax / wk) * yhat[k]


def judge_c01(ctx, cid, case, res, fi, ri):
    """per-interval and total integrals of the result vs reference integrals"""
    x = [float(v) for v in case["x"]]
    xr = [float(v) for v in case["x_ref"]]
    yr = [float(v) for v in case["y_ref"]]
    y = [float(v) for v in case["y"]]
    rel = tol.rel_for(x)
    nontrivial = False
    tot_res = tot_ref = tot_scale = 0.0
    # end weights of neighbouring stretches vanish only to rounding: an all-zero interval next to large values
    # legitimately carries ~eps of them.  That is bounded LOCALLY by end_leak (this interval and its two neighbours);
    # an earlier version also admitted 1e-3 of the global magnitude into every scale, which hid errors that travel
    # across intervals (a running total carried from a large interval into small ones far away)
    gmag = max(max(abs(v) for v in res), max(abs(v) for v in y), max(abs(v) for v in yr))
    yhat = yhat_estimates(case, res, fi)
    ok = True
    xa = np.asarray(x, dtype=float)
    for k in range(len(fi) - 1):
        a, b = fi[k], fi[k + 1]
        # conditioning of this interval and of the two it shares a fixed point with (not of the whole grid)
        rel = tol.REL + tol.cond_local(xa, fi[max(k - 1, 0)], fi[min(k + 2, len(fi) - 1)])
        got = I.integ(x, res, a, b, case["target_rule"])
        want = I.integ(xr, yr, ri[k], ri[k + 1], case["ref_rule"])
        before = I.integ(x, y, a, b, case["target_rule"])
        sc = (I.scale(x, res, a, b, case["target_rule"]) + I.scale(xr, yr, ri[k], ri[k + 1], case["ref_rule"])
              + I.scale(x, y, a, b, case["target_rule"]) + GSHARE * gmag * (x[b] - x[a]))
        # the two end samples of the interval may carry rounding leakage of this and the neighbouring stretches
        leak = (end_leak(case, fi, yhat, k - 1) + 2 * end_leak(case, fi, yhat, k) + end_leak(case, fi, yhat, k + 1)) \
            * (x[b] - x[a])
        ctx.track_worst("c01_rel_err", tol.err(got, want, sc))
        if not abs(got - want) <= rel * max(sc, abs(want)) + leak:
            ok = False
            ctx.violation("interval_integral", cid, {"interval": k, "fixed": [a, b], "got": got, "want": want,
                                                     "scale": sc, "rel_tol": rel, "case": brief(case)})
            break
        if abs(want - before) > 1e-6 * sc:
            nontrivial = True
        tot_res += got
        tot_ref += want
        tot_scale += sc
    if ok:
        got = I.integ(x, res, fi[0], fi[-1], case["target_rule"])
        want = I.integ(xr, yr, ri[0], ri[-1], case["ref_rule"])
        leak = sum(4 * end_leak(case, fi, yhat, k) * (x[fi[k + 1]] - x[fi[k]]) for k in range(len(fi) - 1))
        if not abs(got - want) <= tol.rel_for(x) * max(tot_scale, abs(want)) + leak:
            ctx.violation("total_integral", cid, {"got": got, "want": want, "scale": tot_scale, "case": brief(case)})
    return nontrivial


def judge_c03(ctx, cid, case, res, fi, ri):
    """outside span untouched, fixed points fixed, interior displacement along the documented profile"""
    x = [float(v) for v in case["x"]]
    y = [float(v) for v in case["y"]]
    m = len(x)
    alpha = case["alpha"]
    rel = tol.rel_for(x)
    xmax = max(abs(x[0]), abs(x[-1]))
    # (a) outside the span: bit-identical
    for i in list(range(0, fi[0])) + list(range(fi[-1] + 1, m)):
        if not (res[i] == y[i]):
            ctx.violation("outside_span_changed", cid, {"index": i, "in": y[i], "out": res[i], "case": brief(case)})
            return False
    ctx.monitor("c03:outside_samples", fi[0] + (m - 1 - fi[-1]))
    disp = [res[i] - y[i] for i in range(m)]
    yhat = yhat_estimates(case, res, fi)
    nontrivial = False
    for k in range(len(fi) - 1):
        a, b = fi[k], fi[k + 1]
        width = x[b] - x[a]
        # (b) fixed points: only rounding of the end weights may leak
        for e, nb in ((a, [k - 1, k]), (b, [k, k + 1])):
            lim = sum(end_leak(case, fi, yhat, kk) for kk in nb) + 8 * tol.EPS * abs(y[e])
            if abs(disp[e]) > lim:
                ctx.violation("fixed_point_moved", cid, {"index": e, "in": y[e], "out": res[e], "limit": lim,
                                                         "case": brief(case)})
                return False
        # (c) interior: one sign, proportional to w
        w = weights(x, a, b, alpha)[1:-1]
        d = disp[a + 1:b]
        sw2 = math.fsum(v * v for v in w)
        lam = math.fsum(wi * di for wi, di in zip(w, d)) / sw2 if sw2 > 0 else 0.0
        mag = max(max(abs(v) for v in y[a:b + 1]), max(abs(float(v)) for v in res[a:b + 1]))
        lim = rel * abs(lam) + 16 * tol.EPS * mag + 1e-300
        worst = 0.0
        for wi, di in zip(w, d):
            r = abs(di - lam * wi)
            worst = max(worst, r / max(abs(lam), 1e-300))
            if r > lim:
                ctx.violation("profile", cid, {"interval": k, "lambda": lam, "weights": w[:12], "disp": d[:12],
                                               "residual": r, "limit": lim, "case": brief(case)})
                return False
            if di * (1 if lam >= 0 else -1) < -lim:
                ctx.violation("mixed_sign", cid, {"interval": k, "lambda": lam, "disp": d[:12], "case": brief(case)})
                return False
        if abs(lam) > 1e-6 * max(mag, 1e-300) and len(w) >= 1:
            nontrivial = True
            ctx.track_worst("c03_profile_residual_rel", worst)
        ctx.monitor("c03:profile_intervals")
    return nontrivial


def brief(case):
    d = {k: case[k] for k in ("mode", "strategy", "on_grid", "same_grid", "extras", "alpha", "target_rule", "ref_rule", "xcls",
                              "ycls", "burst", "int32", "m", "K", "idx", "weaver", "perm", "both_given", "idx_dtype") if k in case}
    if case["m"] <= 24:
        d.update({"x": case["x"], "y": case["y"], "x_ref": case["x_ref"], "y_ref": case["y_ref"]})
    return d


# ------------------------------------------------------------------------------------------ execution
def execute(rng, case):
    """Run the real code on the case (function route or Weaver route).  Returns the result array.
    For the Weaver route the working series produced by the real object becomes the case's input y."""
    from traffic_weaver.match import integral_matching_reference_stretch
    kw = call_args(case)
    if case.get("weaver"):
        from traffic_weaver import Weaver
        wv = Weaver(np.array(case["x_ref"], dtype=float), np.array(case["y_ref"], dtype=float))
        wv.interpolate(new_x=np.array(case["x"], dtype=float), method="linear")
        a, b, c = (float(v) for v in rng.normal(0, 1, 3))
        x0, span = float(case["x"][0]), float(case["x"][-1] - case["x"][0])
        scale = float(np.max(np.abs(case["y"]))) or 1.0
        wv.trend(lambda t: scale * (a + b * np.sin(7 * (t - x0) / span) + c * ((t - x0) / span) ** 2))
        case["y"] = np.array(wv.get()[1], dtype=float).copy()
        case["x"] = np.array(wv.get()[0], dtype=float).copy()
        callform.call(rng, wv.integral_match, "Weaver.integral_match", [], kw, p_pos=0.3)
        rx, ry = wv.get()
        return ry
    conts = {}
    args = []
    xa_, xr_ = np.asarray(case["x"], dtype=float), np.asarray(case["x_ref"], dtype=float)
    # time stamps as NumPy keeps them: whole seconds held as datetime64[s] on BOTH axes (the library converts its four
    # arrays to float on entry, which maps a datetime64 to its tick count - the common origin of the two axes matters)
    stamps = (not case.get("int32")) and "fixed_points_in_x" not in kw and bool(np.all(xa_ == np.round(xa_))) \
        and bool(np.all(xr_ == np.round(xr_))) and float(max(np.max(np.abs(xa_)), np.max(np.abs(xr_)))) < 2.0 ** 52 \
        and rng.integers(0, 3) == 0
    for name in ("x", "y", "x_ref", "y_ref"):
        if stamps and name in ("x", "x_ref"):
            v, kind = np.asarray(case[name], dtype=float).astype(np.int64).astype("datetime64[s]"), "datetime64[s]"
        elif case.get("int32") and name != "y":
            v, kind = np.asarray(case[name]).astype(np.int32), "int32 column"
        else:
            v, kind = gen.as_container(rng, case[name])
        conts[name] = kind
        args.append(v)
    case["containers"] = conts
    return callform.call(rng, integral_matching_reference_stretch, "match.integral_matching_reference_stretch", args, kw,
                         p_pos=0.15, p_kw=0.15)


def well_formed(res, m):
    return isinstance(res, np.ndarray) and res.ndim == 1 and len(res) == m and res.dtype.kind == "f" \
        and bool(np.all(np.isfinite(res)))
