"""Parent-side helpers for the dataset properties C18 / C19: documented names, child processes, judging."""
import hashlib
import json
import os
import re
import shutil
import subprocess
import sys
import tempfile

import numpy as np

from .. import HOME, REPO
from ..monitors import fakenet

CHILD_TIMEOUT = 120


def documented_names():
    """parsed at run time from the shipped description tables: [(table, name)]"""
    d = os.path.join(REPO, "src", "traffic_weaver", "datasets", "data_description")
    out = []
    for f in sorted(os.listdir(d)):
        if not f.endswith(".md"):
            continue
        for line in open(os.path.join(d, f), encoding="utf-8"):
            m = re.match(r"\|\s*\d+\s*\|\s*([^\s|]+)\s*\|", line)
            if m:
                out.append((f[:-3], m.group(1)))
    return out


def is_bundled(name):
    return name.replace("-", "_").startswith("sandvine")


def spellings(rng, name, k=3):
    seps = [i for i, c in enumerate(name) if c in "-_"]
    out = [name, name.replace("-", "_"), name.replace("_", "-")]
    for _ in range(k):
        s = list(name)
        for i in seps:
            s[i] = "-" if rng.integers(0, 2) else "_"
        out.append("".join(s))
    seen, res = set(), []
    for s in out:
        if s not in seen:
            seen.add(s)
            res.append(s)
    return res


def scratch_root(prefix="twverif-ds-"):
    return tempfile.mkdtemp(prefix=prefix)


def child_env():
    env = dict(os.environ)
    env["PYTHONPATH"] = os.path.join(REPO, "src") + os.pathsep + HOME
    env["PYTHONDONTWRITEBYTECODE"] = "1"
    env["PYTHONHASHSEED"] = "0"
    env.pop("TRAFFIC_WEAVER_DATA", None)
    return env


_CHILDREN = [0]


def child_cmd(spec, scratch):
    # every second loader process runs inside an application that has switched INFO (every fourth: DEBUG) logging on
    _CHILDREN[0] += 1
    if "logging" not in spec and _CHILDREN[0] % 2 == 0:
        spec = dict(spec, logging="DEBUG" if _CHILDREN[0] % 4 == 0 else "INFO")
    fd, path = tempfile.mkstemp(prefix="spec-", suffix=".json", dir=scratch)
    with os.fdopen(fd, "w") as f:
        json.dump(spec, f)
    return [sys.executable, "-m", "twverif.dschild", "@" + path]


def parse_child(stdout):
    for line in stdout.splitlines():
        if line.startswith("TWVERIF-RESULT "):
            return json.loads(line[len("TWVERIF-RESULT "):])
    return None


def run_child(spec, scratch, prefix=None, timeout=CHILD_TIMEOUT):
    """returns (returncode, parsed result or None, stderr tail)"""
    if "pin_ids" not in spec and not prefix:
        spec = dict(spec, pin_ids=True)        # loaders that run one after the other: each is "PID 1" (see dschild)
    cmd = (prefix or []) + child_cmd(spec, scratch)
    try:
        # cwd = scratch: a loader that wrote to a relative path would be seen there, never in /verif
        p = subprocess.run(cmd, env=child_env(), cwd=scratch, capture_output=True, text=True, timeout=timeout)
    except subprocess.TimeoutExpired:
        return "timeout", None, ""
    out = parse_child(p.stdout)
    if out is not None:
        _hooks_reached(spec, out)
    return p.returncode, out, p.stderr[-1500:]


_REMOTE = None


def _is_remote_name(name):
    global _REMOTE
    if _REMOTE is None:
        _REMOTE = {n.replace("-", "_") for _t, n in documented_names() if not is_bundled(n)}
    return isinstance(name, str) and name.replace("-", "_") in _REMOTE


def _hooks_reached(spec, out):
    """every substituted by-name load of a documented remote name must have passed the recording wrapper"""
    res = out.get("results") or []
    for st, r in zip(spec.get("steps", []), res):
        if st.get("op") == "by_name" and st.get("substitute") and _is_remote_name(st.get("name")):
            capture_of(r, st["name"])
        elif st.get("op") == "parallel":
            for n, o in zip(st.get("names", []), r.get("parallel") or []):
                if o is not None and _is_remote_name(n) and not o.get("captured") and o.get("outcome") != "ok":
                    raise HookNotReached("the wrapper around load_csv_dataset_from_remote was not reached while "
                                         "loading %r in a thread (%s): inconclusive" % (n, o.get("exc_type")))


def expected_desc(url, rows=40, unpack=False):
    a = np.array(fakenet.expected_rows(url, rows), dtype=np.float64)

    def d(v):
        return {"shape": list(v.shape), "dtype": str(v.dtype),
                "sha": hashlib.sha256(np.ascontiguousarray(v).tobytes()).hexdigest()[:24]}
    if unpack:
        return [d(a[:, 0]), d(a[:, 1])]
    return d(a)


class HookNotReached(RuntimeError):
    """the recording/substituting wrapper around the remote loader saw nothing: no verdict can rest on this run"""


def capture_of(r, name):
    """The metadata the recording wrapper captured for a by-name load of a remote name.

    The wrapper is the instrumentation point that swaps the pinned checksum for the checksum of the fake payload.
    A load that never reached it (a code base whose providers no longer go through load_csv_dataset_from_remote)
    was judged on the pinned checksum of the real file, which no fake payload can meet: that is a hook that was
    never reached - inconclusive - and not a finding about the loader.  Returns None when the load neither
    reached the wrapper nor used the network nor failed (a remote name served from somewhere else: judged by the
    caller)."""
    cap = r.get("captured") or []
    if cap:
        return cap[-1]
    if r.get("outcome") == "ok" and not r.get("requests"):
        return None
    raise HookNotReached("the wrapper around load_csv_dataset_from_remote was not reached while loading %r "
                         "(outcome %s %s): substituted checksums were not in effect, inconclusive"
                         % (name, r.get("outcome"), r.get("exc_type")))


def pauses_observable(r, expected_n, delay):
    """Pauses are observed through a virtual time.sleep.  A loader that waits by other means (an Event, select)
    leaves the recorded list short while the real clock shows the wait: the hook was bypassed - inconclusive."""
    if expected_n > 0 and len(r.get("sleeps") or []) < expected_n and \
            float(r.get("elapsed") or 0.0) >= 0.9 * delay * expected_n:
        raise HookNotReached("%.2f s of real time passed with %d of %d pauses seen by the virtual time.sleep: the "
                             "loader waits by other means, inconclusive" % (r["elapsed"], len(r.get("sleeps") or []), expected_n))


def same_data(got, want):
    """compare a child's data description with the expected one (shape, dtype, content hash)"""
    if isinstance(want, list):
        return isinstance(got, dict) and "tuple" in got and len(got["tuple"]) == len(want) and \
            all(same_data(g, w) for g, w in zip(got["tuple"], want))
    return isinstance(got, dict) and all(got.get(k) == want[k] for k in ("shape", "dtype", "sha"))


def _umask():
    m = os.umask(0o022)
    os.umask(m)
    return m


UMASK = _umask()        # inherited by the dataset children


def cache_entry_ok(path, url, rows=40):
    """offline oracle over the file system: absent, or a complete pickle of exactly the expected array"""
    import pickle
    if not os.path.exists(path):
        return "absent"
    try:
        with open(path, "rb") as f:
            obj = pickle.load(f)
    except Exception as e:
        return "corrupt:%s" % type(e).__name__
    want = np.array(fakenet.expected_rows(url, rows), dtype=np.float64)
    if isinstance(obj, np.ndarray) and obj.shape == want.shape and np.array_equal(obj, want):
        return "complete"
    return "wrong_content"


def leftovers(home, folder, dataset_filename):
    """anything in the dataset folder besides the cache entry (temporary directories that survived)"""
    d = os.path.join(home, folder)
    if not os.path.isdir(d):
        return []
    return sorted(e for e in os.listdir(d) if e != dataset_filename)


def outside_writes(audit_events, home):
    """audit 'open for writing' / mkdir / rename events that touch paths outside the data home"""
    homer = os.path.realpath(home)
    bad = []
    for ev in audit_events:
        if ev[0] in ("open_w", "os.mkdir", "tempfile.mkdtemp", "rename"):
            for p in ev[1:]:
                if isinstance(p, str) and p.startswith("/") and not os.path.realpath(p).startswith(homer) \
                        and not p.startswith("/dev/") and not p.startswith("/proc/"):
                    bad.append(ev)
    return bad
