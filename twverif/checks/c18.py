"""C18 - every documented dataset is reachable by name and well-formed."""
import os
import shutil
import zlib

import numpy as np

from . import _ds
from ..monitors import fakenet

PROPERTY = "C18"
LEVEL = "exploration"
LEVEL_TEXT = ("Name-space enumeration under a fake network with an audit-hook I/O monitor: every name parsed at run time "
              "from the four shipped description tables, in several '-'/'_' spellings and with both values of the "
              "unpack flag, is loaded through the real load_dataset in a child process. Bundled names must give finite "
              "float (k, 2) arrays with strictly increasing first column (or exactly their two columns); remote names "
              "must issue exactly one urllib request on an empty cache, return the payload served for their own URL and "
              "create their own cache file; URLs, pinned checksums and cache slots must be pairwise distinct (by "
              "captured metadata and by effect: all remote names loaded into one data home); with unaltered metadata "
              "every remote name must fail with OSError and leave no cache file; files may only appear under the data "
              "home; undocumented names must raise ValueError. Exhaustive over the documented names.")
LEVEL_NOTE = ("The real files cannot be fetched (no network): the fake opener serves a small unique CSV per URL and a "
              "recording wrapper around load_csv_dataset_from_remote swaps the pinned checksum for the checksum of the "
              "served payload, so that the real download / verify / parse / pickle / rename pipeline runs. The pinned "
              "checksums themselves are checked for distinctness and for being enforced, not for matching the real files.")
TECHNIQUE = "exhaustive name-space enumeration under a fake urllib opener + sys.addaudithook I/O monitor, child process per name group"
RULE = ("case = (documented name, spelling in {as documented, all '_', all '-', 3 random mixtures}, unpack flag); plus per "
        "remote name a warm-cache reload under a dead network and an unaltered-checksum load; plus one data home loaded "
        "with all remote names; plus 200 undocumented names (typos of real ones); plus a default-home run. "
        "non-trivial: every load of a documented name; distinct by (name, spelling, unpack)."
        " Also: the data-home variable switched between loads of one process, a value starting with '~' (HOME redirected), the description tables through their public accessors, unpacked columns compared with the columns of the plain load."
        " Round-4 classes: TRAFFIC_WEAVER_DATA as a relative path (plain and ./nested) with a working directory other than the home directory."
        " Round-5 classes: a 'threads' kind - 3..6 sibling names loaded by as many threads of one process while the fake server holds every response until all requests are in flight."
        " Round-6 classes: data homes with several trailing components that do not exist yet (~/.cache/tw/cache-v1, data/sets/tw-cache)."
        " Round-7 classes: a 'no_home' kind - bundled names (and an unknown name) requested while HOME / TRAFFIC_WEAVER_DATA lie beneath a regular file."
        " Round-8 classes: a data home that is, or lies behind, a symbolic link; by-name loads that never reach the checksum-substituting wrapper are inconclusive (HookNotReached), not judged."
        " Round-9 classes: every second loader process has INFO (every fourth DEBUG) logging switched on by the application."
        " Round-10 classes: data-home values with components that look like variable references ($STAGE, ${USER}, %TEMP%) while such variables are defined.")
REQUIRED_MONITORS = ["c18:symlink_home", "c18:bundled", "c18:remote", "c18:pinned_checksum_enforced", "c18:all_in_one_home",
                     "c18:undocumented", "c18:default_home", "c18:substitution_wrapper", "c18:switch_home", "c18:tilde_home", "c18:relative_home", "c18:description_accessors", "c18:threads", "c18:no_home"]
ASSUMPTIONS = ["the served payloads are synthetic; what is observed is the loader's behaviour per name, not the remote files"]
NPARTS = 12


def plan(tier, seed):
    specs = [{"kind": "names", "part": p, "parts": NPARTS} for p in range(NPARTS)]
    specs += [{"kind": "one_home"}, {"kind": "undocumented"}, {"kind": "default_home"}, {"kind": "switch_home"},
              {"kind": "tilde_home"}, {"kind": "threads"}, {"kind": "no_home"}]
    return specs


def exhaustive(tier, merged):
    return "all names of the shipped description tables (95 at the pinned commit: 19 bundled, 76 remote)"


def judge_remote_ok(ctx, cid, r, name, unpack, home_listing=None):
    """a substituted load of a remote name on an empty cache"""
    if r.get("outcome") != "ok" and not (r.get("captured") or []):
        _ds.capture_of(r, name)       # raises HookNotReached: the substitution was not in effect, nothing to judge
    if r.get("outcome") != "ok":
        ctx.violation("documented_name_not_loadable", cid, {"name": name, "exception": r.get("exc_type"),
                                                            "message": r.get("exc_msg")})
        return None
    meta = _ds.capture_of(r, name)
    if meta is None:
        ctx.violation("remote_name_served_without_its_download", cid, {"name": name, "data": r.get("data")})
        return None
    ctx.monitor("c18:substitution_wrapper")
    reqs = [e for e in r["audit"] if e[0] == "request"]
    if len(reqs) != 1 or len(r["requests"]) != 1 or reqs[0][1] != meta["url"]:
        ctx.violation("remote_name_did_not_issue_exactly_one_request_for_its_url", cid,
                      {"name": name, "requests": reqs, "url": meta["url"]})
        return None
    if not _ds.same_data(r["data"], _ds.expected_desc(meta["url"], 40, unpack)):
        ctx.violation("remote_name_returned_other_data", cid, {"name": name, "data": r["data"], "url": meta["url"]})
        return None
    return meta


def run_names(ctx, spec):
    names = _ds.documented_names()
    mine = [nm for i, nm in enumerate(names) if i % spec["parts"] == spec["part"]]
    scratch = _ds.scratch_root()
    try:
        home = os.path.join(scratch, "home")
        os.mkdir(home)
        steps, plan_ = [], []
        for ti, (table, name) in enumerate(mine):
            rng = ctx.rng("spell", zlib.crc32(name.encode()))
            for sp in _ds.spellings(rng, name):
                for unpack in (False, True, None):
                    if unpack is None and sp != name:
                        continue
                    steps += [{"op": "clear_home"}, {"op": "net", "default": "good"}]
                    st = {"op": "by_name", "name": sp, "substitute": True}
                    if unpack is not None:
                        st["unpack"] = unpack
                    steps.append(st)
                    plan_.append((len(steps) - 1, "load", name, sp, bool(unpack)))
                    steps.append({"op": "listing"})
            if not _ds.is_bundled(name):
                # warm cache + dead network -> served from the cache; then pinned checksum enforced on an empty cache
                steps += [{"op": "net", "default": "urlerror"}, {"op": "by_name", "name": name, "substitute": True}]
                plan_.append((len(steps) - 1, "warm", name, name, False))
                steps += [{"op": "clear_home"}, {"op": "net", "default": "good"},
                          {"op": "by_name", "name": name, "substitute": False}]
                plan_.append((len(steps) - 1, "pinned", name, name, False))
                steps.append({"op": "listing"})
        rc, out, err = _ds.run_child({"home": home, "steps": steps}, scratch)
        if out is None:
            raise RuntimeError("dataset child failed rc=%s: %s" % (rc, err))
        res = out["results"]
        bundled_cols = {}
        for si, what, name, sp, unpack in plan_:
            r = res[si]
            cid = {"kind": "names", "name": name, "spelling": sp, "unpack": unpack, "what": what, "seed": ctx.seed}
            ctx.judged()
            real = [e for e in r.get("audit", []) if e[0] == "REAL_NETWORK"]
            if real:
                raise RuntimeError("harness error: the real network was touched: %r" % real[:2])
            bad = _ds.outside_writes(r.get("audit", []), home)
            if bad:
                ctx.violation("file_written_outside_data_home", cid, {"events": bad[:5]})
                continue
            if what == "load" and _ds.is_bundled(name):
                ctx.monitor("c18:bundled")
                if r.get("outcome") != "ok":
                    ctx.violation("documented_name_not_loadable", cid, {"exception": r.get("exc_type"),
                                                                        "message": r.get("exc_msg")})
                    continue
                d = r["data"]
                if unpack:
                    ok = "tuple" in d and len(d["tuple"]) == 2 and all(
                        len(c["shape"]) == 1 and c["dtype"] == "float64" and c["finite"] for c in d["tuple"]) and \
                        d["tuple"][0]["shape"] == d["tuple"][1]["shape"]
                else:
                    ok = d.get("dtype") == "float64" and len(d.get("shape", [])) == 2 and d["shape"][1] == 2 and \
                        d["shape"][0] >= 2 and d.get("finite") and d.get("x_increasing")
                if not ok:
                    ctx.violation("bundled_dataset_malformed", cid, {"data": d})
                    continue
                if r["requests"] or [e for e in r["audit"] if e[0] == "request"]:
                    ctx.violation("bundled_dataset_used_the_network", cid, {"requests": r["requests"]})
                    continue
                # unpacking must return exactly the two columns of what the plain load returns, in order
                if not unpack:
                    bundled_cols[name] = d.get("col_sha")
                elif bundled_cols.get(name) and [c_["sha"] for c_ in d["tuple"]] != bundled_cols[name]:
                    ctx.violation("unpacked_columns_differ_from_the_array_columns", cid, {"data": d, "columns": bundled_cols[name]})
                    continue
                ctx.setadd("bundled_content", "%s:%s" % (name, d.get("sha") or d["tuple"][0]["sha"]))
                ctx.nontriv(name, sp, unpack)
            elif what == "load":
                ctx.monitor("c18:remote")
                meta = judge_remote_ok(ctx, cid, r, name, unpack)
                if meta is None:
                    continue
                lst = res[si + 1]["listing"]
                files = [e[0] for e in lst if isinstance(e, list)]
                want = os.path.normpath(os.path.join(meta["dataset_folder"], meta["dataset_filename"]))
                if files != [want]:
                    ctx.violation("cache_file_not_where_the_loader_says", cid, {"files": files, "expected": want})
                    continue
                ctx.setadd("remote_meta", {"name": name, "url": meta["url"], "checksum": meta["checksum"], "slot": want})
                ctx.nontriv(name, sp, unpack)
            elif what == "warm":
                if r.get("outcome") != "ok" or r["requests"]:
                    ctx.violation("cached_dataset_not_served_without_network", cid,
                                  {"outcome": r.get("outcome"), "exception": r.get("exc_type"), "requests": r["requests"]})
                    continue
                ctx.nontriv(name, "warm")
            else:
                ctx.monitor("c18:pinned_checksum_enforced")
                lst = res[si + 1]["listing"]
                files = [e[0] for e in lst if isinstance(e, list)]
                if r.get("outcome") != "exc" or r.get("exc_type") != "OSError":
                    ctx.violation("data_with_wrong_checksum_not_refused_with_OSError", cid,
                                  {"outcome": r.get("outcome"), "exception": r.get("exc_type")})
                    continue
                if files or any(isinstance(e, str) and e.count("/") > 1 for e in lst):
                    ctx.violation("unverified_data_left_in_cache", cid, {"listing": lst})
                    continue
                ctx.nontriv(name, "pinned")
        ctx.sample({"names": [n for _t, n in mine][:4], "spellings_of_first": _ds.spellings(ctx.rng("spell", zlib.crc32(mine[0][1].encode())), mine[0][1])})
    finally:
        shutil.rmtree(scratch, ignore_errors=True)


def run_one_home(ctx):
    """all remote names into ONE data home: each must issue its own request and create its own file"""
    names = [n for _t, n in _ds.documented_names() if not _ds.is_bundled(n)]
    scratch = _ds.scratch_root()
    try:
        home = os.path.join(scratch, "home")
        os.mkdir(home)
        order = list(ctx.rng("order", 0).permutation(len(names)))
        steps = [{"op": "net", "default": "good"}]
        for i in order:
            steps.append({"op": "by_name", "name": names[i], "substitute": True})
        steps.append({"op": "listing"})
        rc, out, err = _ds.run_child({"home": home, "steps": steps}, scratch)
        if out is None:
            raise RuntimeError("dataset child failed rc=%s: %s" % (rc, err))
        res = out["results"]
        metas = {}
        for k, i in enumerate(order):
            r = res[1 + k]
            cid = {"kind": "one_home", "name": names[i], "position": k, "seed": ctx.seed}
            ctx.judged()
            ctx.monitor("c18:all_in_one_home")
            meta = judge_remote_ok(ctx, cid, r, names[i], False)
            if meta is not None:
                metas[names[i]] = meta
                ctx.nontriv("one_home", names[i])
        files = [e[0] for e in res[-1]["listing"] if isinstance(e, list)]
        cid = {"kind": "one_home", "seed": ctx.seed}
        if len(metas) == len(names):
            for key in ("url", "checksum"):
                vals = {}
                for n, m in metas.items():
                    vals.setdefault(m[key], []).append(n)
                dup = {k: v for k, v in vals.items() if len(v) > 1}
                if dup:
                    ctx.violation("datasets_share_" + key, cid, {"shared": dup})
            slots = {}
            for n, m in metas.items():
                slots.setdefault(os.path.join(m["dataset_folder"], m["dataset_filename"]), []).append(n)
            dup = {k: v for k, v in slots.items() if len(v) > 1}
            if dup:
                ctx.violation("datasets_share_cache_slot", cid, {"shared": dup})
            if len(files) != len(names):
                ctx.violation("number_of_cache_files_differs_from_number_of_datasets", cid,
                              {"files": len(files), "datasets": len(names)})
        ctx.sample({"one_home_order": [names[i] for i in order[:6]], "files_created": len(files)})
    finally:
        shutil.rmtree(scratch, ignore_errors=True)


def typos(rng, names, k=200):
    valid = {n.replace("-", "_") for n in names}
    out = []
    while len(out) < k:
        n = names[int(rng.integers(0, len(names)))]
        t = int(rng.integers(0, 7))
        if t == 0:
            i = int(rng.integers(0, len(n)))
            c = n[:i] + n[i + 1:]
        elif t == 1:
            i = int(rng.integers(0, len(n) - 1))
            c = n[:i] + n[i + 1] + n[i] + n[i + 2:]
        elif t == 2:
            c = n + ["_x", "s", "-2024", "_csv"][int(rng.integers(0, 4))]
        elif t == 3:
            c = n.replace("daily", "hourly").replace("weekly", "biweekly").replace("audio", "radio")
        elif t == 4:
            c = n.upper()
        elif t == 5:
            c = ["ix-br", "ams-ix", "mix-it", "sandvine", "", "load_dataset", "sandvine_", "fetch_ams_ix_daily",
                 "_base", "no such dataset"][int(rng.integers(0, 10))]
        else:
            c = n.replace("_", "").replace("-", "")
        if c.replace("-", "_") not in valid and c not in out:
            out.append(c)
    return out


def run_undocumented(ctx):
    names = [n for _t, n in _ds.documented_names()]
    scratch = _ds.scratch_root()
    try:
        home = os.path.join(scratch, "home")
        os.mkdir(home)
        ty = typos(ctx.rng("typos", 0), names)
        steps = [{"op": "net", "default": "good"}] + [{"op": "by_name", "name": t, "substitute": True} for t in ty]
        steps.append({"op": "listing"})
        steps.append({"op": "descriptions"})
        rc, out, err = _ds.run_child({"home": home, "steps": steps}, scratch)
        if out is None:
            raise RuntimeError("dataset child failed rc=%s: %s" % (rc, err))
        # the description tables are also reachable through the package: every documented name must appear in the text
        # returned by the accessor of its table
        desc = out["results"][-1].get("descriptions", {})
        by_table = {}
        for table, n in _ds.documented_names():
            by_table.setdefault(table, []).append(n)
        for table, fn in (("sandvine", "sandvine_dataset_description"), ("mix_it", "mix_it_dataset_description"),
                          ("ams_ix", "ams_ix_dataset_description"), ("ix_br", "ix_br_dataset_description")):
            ctx.judged()
            ctx.monitor("c18:description_accessors")
            txt = desc.get(fn)
            if not isinstance(txt, str) or any(n not in txt for n in by_table.get(table, [])):
                ctx.violation("description_accessor", {"kind": "undocumented", "accessor": fn, "seed": ctx.seed},
                              {"returned": txt if not isinstance(txt, str) else txt[:200]})
            else:
                ctx.nontriv("desc", fn)
        for t, r in zip(ty, out["results"][1:]):
            cid = {"kind": "undocumented", "name": t, "seed": ctx.seed}
            ctx.judged()
            ctx.monitor("c18:undocumented")
            if r.get("outcome") != "exc" or r.get("exc_type") != "ValueError":
                ctx.violation("undocumented_name_not_refused_with_ValueError", cid,
                              {"outcome": r.get("outcome"), "exception": r.get("exc_type"), "message": r.get("exc_msg")})
                continue
            ctx.nontriv("typo", t)
        ctx.sample({"undocumented_names": ty[:8]})
    finally:
        shutil.rmtree(scratch, ignore_errors=True)


def run_default_home(ctx):
    """TRAFFIC_WEAVER_DATA unset, HOME pointed at a scratch directory: cache under ~/.traffic-weaver-data only"""
    names = [n for _t, n in _ds.documented_names() if not _ds.is_bundled(n)]
    pick = [names[i] for i in ctx.rng("dh", 0).choice(len(names), size=6, replace=False)]
    scratch = _ds.scratch_root()
    try:
        fake_home = os.path.join(scratch, "userhome")
        os.mkdir(fake_home)
        steps = [{"op": "net", "default": "good"}] + [{"op": "by_name", "name": n, "substitute": True} for n in pick]
        rc, out, err = _ds.run_child({"home": fake_home, "home_mode": "default", "steps": steps}, scratch)
        if out is None:
            raise RuntimeError("dataset child failed rc=%s: %s" % (rc, err))
        root = os.path.join(fake_home, ".traffic-weaver-data")
        for n, r in zip(pick, out["results"][1:]):
            cid = {"kind": "default_home", "name": n, "seed": ctx.seed}
            ctx.judged()
            ctx.monitor("c18:default_home")
            if r.get("outcome") != "ok":
                ctx.violation("documented_name_not_loadable", cid, {"exception": r.get("exc_type"), "message": r.get("exc_msg")})
                continue
            bad = _ds.outside_writes(r["audit"], root)
            if bad:
                ctx.violation("file_written_outside_default_data_home", cid, {"events": bad[:5], "expected_root": root})
                continue
            ctx.nontriv("default_home", n)
        made = sorted(os.listdir(fake_home))
        if made != [".traffic-weaver-data"]:
            ctx.violation("unexpected_entries_in_home", {"kind": "default_home", "seed": ctx.seed}, {"entries": made})
        # and with the variable set nothing may appear in the default location: covered by run_names' audit monitor
    finally:
        shutil.rmtree(scratch, ignore_errors=True)


def run_no_home(ctx):
    """the data home cannot be created (read-only container, service user with HOME=/nonexistent; here: a path beneath a
    regular file, which also defeats root): the BUNDLED datasets need no cache and must load all the same, and unknown
    names are still refused with ValueError"""
    names = [n for _t, n in _ds.documented_names() if _ds.is_bundled(n)]
    rng = ctx.rng("nohome", 0)
    pick = [names[i] for i in rng.choice(len(names), size=min(8, len(names)), replace=False)]
    scratch = _ds.scratch_root()
    try:
        blocker = os.path.join(scratch, "not-a-directory")
        open(blocker, "w").close()
        for mode, extra in (("tilde", {"user_home": os.path.join(blocker, "home"), "tilde_value": os.path.join(blocker, "cache")}),
                            ("default", {})):
            steps = [{"op": "net", "default": "urlerror"}]
            for n in pick:
                steps.append({"op": "by_name", "name": n} if rng.integers(0, 2) else {"op": "by_name", "name": n, "unpack": bool(rng.integers(0, 2))})
            steps.append({"op": "by_name", "name": "no-such-dataset"})
            spec = dict({"home": os.path.join(blocker, "home"), "home_mode": mode, "steps": steps}, **extra)
            rc, out, err = _ds.run_child(spec, scratch)
            if out is None:
                raise RuntimeError("dataset child failed rc=%s: %s" % (rc, err))
            res = out["results"][1:]
            for n, r in zip(pick, res):
                cid = {"kind": "no_home", "name": n, "home_mode": mode, "seed": ctx.seed}
                ctx.judged()
                ctx.monitor("c18:no_home")
                if r.get("outcome") != "ok":
                    ctx.violation("bundled_dataset_needs_a_data_home", cid, {"exception": r.get("exc_type"), "message": r.get("exc_msg")})
                    continue
                if r["requests"]:
                    ctx.violation("bundled_dataset_used_the_network", cid, {"requests": r["requests"]})
                    continue
                ctx.nontriv("no_home", mode, n)
            last = res[len(pick)]
            if last.get("outcome") != "exc" or last.get("exc_type") != "ValueError":
                ctx.violation("unknown_name_not_refused_with_ValueError", {"kind": "no_home", "home_mode": mode, "seed": ctx.seed},
                              {"outcome": last.get("outcome"), "exception": last.get("exc_type"), "message": last.get("exc_msg")})
        ctx.sample({"no_home": "TRAFFIC_WEAVER_DATA / HOME beneath a regular file", "names": pick})
    finally:
        shutil.rmtree(scratch, ignore_errors=True)


def run_switch_home(ctx):
    """TRAFFIC_WEAVER_DATA changed between loads of one process: every load must use the directory named at that time"""
    names = [n for _t, n in _ds.documented_names() if not _ds.is_bundled(n)]
    rng = ctx.rng("sw", 0)
    scratch = _ds.scratch_root()
    try:
        homes = [os.path.join(scratch, "home%d" % i) for i in range(4)]
        for h in homes:
            os.mkdir(h)
        steps = [{"op": "net", "default": "good"}]
        plan_ = []
        for k in range(12):
            h = homes[int(rng.integers(0, 4))] if k else homes[0]
            n = names[int(rng.integers(0, len(names)))]
            if k:
                steps.append({"op": "set_home", "home": h})
            steps.append({"op": "by_name", "name": n, "substitute": True})
            plan_.append((len(steps) - 1, h, n))
        rc, out, err = _ds.run_child({"home": homes[0], "steps": steps}, scratch)
        if out is None:
            raise RuntimeError("dataset child failed rc=%s: %s" % (rc, err))
        for si, h, n in plan_:
            r = out["results"][si]
            cid = {"kind": "switch_home", "name": n, "step": si, "seed": ctx.seed}
            ctx.judged()
            ctx.monitor("c18:switch_home")
            if r.get("outcome") != "ok":
                ctx.violation("documented_name_not_loadable", cid, {"exception": r.get("exc_type"), "message": r.get("exc_msg")})
                continue
            bad = _ds.outside_writes(r["audit"], h)
            cap = _ds.capture_of(r, n) or {}
            slot = os.path.join(h, cap.get("dataset_folder", "?"), cap.get("dataset_filename", "?"))
            if bad or not os.path.exists(slot):
                ctx.violation("cache_not_under_the_directory_named_by_TRAFFIC_WEAVER_DATA", cid,
                              {"expected_home": os.path.basename(h), "outside_events": bad[:4],
                               "slot_exists": os.path.exists(slot)})
                continue
            ctx.nontriv("switch_home", si, n)
        ctx.sample({"switch_home": [[os.path.basename(h), n] for _si, h, n in plan_[:5]]})
    finally:
        shutil.rmtree(scratch, ignore_errors=True)


def run_tilde_home(ctx):
    """TRAFFIC_WEAVER_DATA given the way .env files give it: ~/something (HOME redirected) must mean $HOME/something,
    a relative value must mean that path under the CURRENT directory (which is not the home directory here); the
    cache must live there, and a dataset already cached there must be served without a request"""
    for value, where, mon in (("~/tw-cache", "home", "c18:tilde_home"), ("tw-cache", "cwd", "c18:relative_home"),
                              ("./var/tw-cache", "cwd", "c18:relative_home"),
                              # several trailing components that do not exist yet (~/.cache/traffic-weaver on a new account)
                              ("~/.cache/tw/cache-v1", "home", "c18:tilde_home"),
                              ("data/sets/tw-cache", "cwd", "c18:relative_home")):
        _run_named_home(ctx, value, where, mon)
    # the named directory IS a symbolic link (a cache kept on a data disk), or lies BEHIND one (~/mnt -> /data/...)
    _run_named_home(ctx, "~/linked-cache", "home", "c18:symlink_home", link=("linked-cache", "disk/cache"))
    _run_named_home(ctx, "~/mnt/tw-cache", "home", "c18:symlink_home", link=("mnt", "disk2"))
    # a directory component that merely LOOKS like a variable reference ($STAGE, ${USER}, %TEMP%) while a variable of that
    # name is defined: the value names a directory, it is not a template
    env = {"STAGE": "nightly", "USER": "ci-runner", "TEMP": "scratch-tmp"}
    _run_named_home(ctx, "~/jobs/$STAGE/cache", "home", "c18:tilde_home", extra_env=env)
    _run_named_home(ctx, "runs/${USER}/%TEMP%/tw", "cwd", "c18:relative_home", extra_env=env)


def _run_named_home(ctx, value, where, mon, link=None, extra_env=None):
    names = [n for _t, n in _ds.documented_names() if not _ds.is_bundled(n)]
    pick = [names[i] for i in ctx.rng("tilde", len(value)).choice(len(names), size=4, replace=False)]
    scratch = _ds.scratch_root()
    try:
        user_home = os.path.join(scratch, "userhome")
        os.mkdir(user_home)
        tail = value[2:] if value.startswith(("~/", "./")) else value
        real = os.path.normpath(os.path.join(user_home if where == "home" else scratch, tail))
        if link:
            target = os.path.join(scratch, link[1])
            os.makedirs(target)
            os.symlink(target, os.path.join(user_home, link[0]))
            real = os.path.realpath(real)
        steps = [{"op": "net", "default": "good"}] + [{"op": "by_name", "name": n, "substitute": True} for n in pick]
        steps += [{"op": "net", "default": "urlerror"}] + [{"op": "by_name", "name": n, "substitute": True} for n in pick]
        rc, out, err = _ds.run_child({"home": real, "home_mode": "tilde", "user_home": user_home,
                                      "tilde_value": value, "steps": steps,
                                      "extra_env": extra_env or {}}, scratch)
        if out is None:
            raise RuntimeError("dataset child failed rc=%s: %s" % (rc, err))
        res = out["results"]
        for j, n in enumerate(pick):
            cid = {"kind": "tilde_home", "name": n, "value": value, "seed": ctx.seed}
            if link:
                cid["symbolic_link"] = "%s -> %s" % (link[0], link[1])
            ctx.judged()
            ctx.monitor(mon)
            r, r2 = res[1 + j], res[2 + len(pick) + j]
            if r.get("outcome") != "ok":
                ctx.violation("documented_name_not_loadable", cid, {"exception": r.get("exc_type"), "message": r.get("exc_msg")})
                continue
            # creating the named directory may create its parents (var/ for ./var/tw-cache)
            bad = [e for e in _ds.outside_writes(r["audit"], real)
                   if not (e[0] == "os.mkdir" and real.startswith(os.path.normpath(str(e[1])) + os.sep))]
            if bad or not os.path.isdir(real):
                ctx.violation("cache_not_under_the_directory_named_by_TRAFFIC_WEAVER_DATA", cid,
                              {"value": value, "expected_root": real, "events": bad[:4], "exists": os.path.isdir(real)})
                continue
            if r2.get("outcome") != "ok" or r2["requests"]:
                ctx.violation("cached_dataset_not_served_without_network", cid,
                              {"outcome": r2.get("outcome"), "exception": r2.get("exc_type"), "requests": r2["requests"]})
                continue
            ctx.nontriv("tilde", value, n)
        stray = [e for e in os.listdir(scratch) if e.startswith("~")]
        if stray:
            ctx.violation("literal_tilde_directory_created", {"kind": "tilde_home", "seed": ctx.seed}, {"entries": stray})
        ctx.sample({"named_home": {"TRAFFIC_WEAVER_DATA": value, "resolved_against": where, "names": pick}})
    finally:
        shutil.rmtree(scratch, ignore_errors=True)


def run_threads(ctx):
    """several threads of one process request different names of one provider family at the same time (a thread pool
    mapped over names on a cold cache): every request must get ITS data, and every name its own complete cache entry"""
    names = [n for _t, n in _ds.documented_names() if not _ds.is_bundled(n)]
    fams = {}
    for n in names:
        fams.setdefault(n.split("_")[0].rsplit("-", 1)[0] if n.startswith(("mix", "ams", "ix")) else n, []).append(n)
    groups = {}
    for n in names:
        groups.setdefault(n[:6], []).append(n)
    rng = ctx.rng("threads", 0)
    for gi, (key, members) in enumerate(sorted(groups.items())):
        if len(members) < 3:
            continue
        for rep in range(2 if ctx.tier == "quick" else 8):
            pick = [members[i] for i in rng.choice(len(members), size=min(len(members), int(rng.integers(3, 7))), replace=False)]
            scratch = _ds.scratch_root()
            try:
                home = os.path.join(scratch, "home")
                os.mkdir(home)
                steps = [{"op": "net", "default": "good"}, {"op": "parallel", "names": pick}, {"op": "listing"},
                         {"op": "net", "default": "urlerror"}] + [{"op": "by_name", "name": n, "substitute": True} for n in pick]
                rc, out, err = _ds.run_child({"home": home, "steps": steps}, scratch)
                if out is None:
                    raise RuntimeError("dataset child failed rc=%s: %s" % (rc, err))
                res = out["results"]
                par = res[1].get("parallel") or []
                for j, n in enumerate(pick):
                    cid = {"kind": "threads", "name": n, "together_with": pick, "seed": ctx.seed}
                    ctx.judged()
                    ctx.monitor("c18:threads")
                    r = par[j] if j < len(par) else None
                    if r and r.get("outcome") != "ok" and not (r.get("captured") or []):
                        _ds.capture_of(r, n)
                    if not r or r.get("outcome") != "ok":
                        ctx.violation("documented_name_not_loadable_while_sibling_names_are_loading", cid,
                                      {"exception": (r or {}).get("exc_type"), "message": (r or {}).get("exc_msg")})
                        continue
                    cap = [c for c in [_ds.capture_of(r, n)] if c]
                    if len(cap) != 1 or not _ds.same_data(r["data"], _ds.expected_desc(cap[0]["url"], 40, False)):
                        ctx.violation("remote_name_returned_other_data", cid, {"data": r.get("data"), "captured": cap})
                        continue
                    r2 = res[4 + j]
                    if r2.get("outcome") != "ok" or r2["requests"] or not _ds.same_data(r2["data"], _ds.expected_desc(cap[0]["url"], 40, False)):
                        ctx.violation("cached_dataset_not_served_without_network", cid,
                                      {"outcome": r2.get("outcome"), "exception": r2.get("exc_type"), "requests": r2.get("requests")})
                        continue
                    ctx.nontriv("threads", n, rep)
                # after all loads have finished the data home holds provider folders and one entry per loaded name
                lst = res[2]["listing"]
                n_dirs = len([e for e in lst if isinstance(e, str)])
                n_files = len([e for e in lst if not isinstance(e, str)])
                left = [e for e in lst if isinstance(e, str) and e.count("/") > 1] if n_files == len(pick) else \
                    [e for e in lst if not isinstance(e, str)][len(pick):] or ["%d directories, %d files" % (n_dirs, n_files)]
                if left:
                    ctx.violation("temporary_files_left_after_concurrent_loads", {"kind": "threads", "names": pick, "seed": ctx.seed},
                                  {"entries": left[:6]})
            finally:
                shutil.rmtree(scratch, ignore_errors=True)
    ctx.sample({"threads": "3..6 names of one provider family loaded by as many threads of one process"})


def run(ctx, spec):
    k = spec["kind"]
    if k == "threads":
        return run_threads(ctx)
    if k == "no_home":
        return run_no_home(ctx)
    if k == "tilde_home":
        return run_tilde_home(ctx)
    if k == "switch_home":
        return run_switch_home(ctx)
    if k == "names":
        run_names(ctx, spec)
    elif k == "one_home":
        run_one_home(ctx)
    elif k == "undocumented":
        run_undocumented(ctx)
    else:
        run_default_home(ctx)


def replay(ctx, case):
    k = case["kind"]
    if k == "threads":
        return run_threads(ctx)
    if k == "no_home":
        return run_no_home(ctx)
    if k == "tilde_home":
        return run_tilde_home(ctx)
    if k == "switch_home":
        return run_switch_home(ctx)
    if k == "names":
        names = _ds.documented_names()
        i = [n for _t, n in names].index(case["name"])
        run_names(ctx, {"kind": "names", "part": i % NPARTS, "parts": NPARTS})
    elif k == "one_home":
        run_one_home(ctx)
    elif k == "undocumented":
        run_undocumented(ctx)
    else:
        run_default_home(ctx)
