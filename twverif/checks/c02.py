"""C02 - recreate + match preserves every original average (averaging round trip)."""
import numpy as np

from . import _match as M
from . import _rfa as R
from .. import gen, tol
from ..core import fp_watch
from ..models import integrate as I

PROPERTY = "C02"
LEVEL = "exploration"
LEVEL_TEXT = ("Post-condition monitor on the real pipeline Weaver(x, y)[.append_one_sample(p)].recreate_from_average("
              "n, C, **kw).integral_match(target rule): for every original interval the mean of the result under the "
              "target rule (own integration) must equal the original average; with the rectangle rule the real "
              "process.average over blocks of n must return the reference abscissae bit for bit and the averages to "
              "rounding. Random series x 6 strategies x parameters x n x spacing x append, and all 19 bundled "
              "datasets x 6 strategies x several n. Sampled.")
LEVEL_NOTE = ("Reference series predicted independently (original, or original plus the documented appended sample); "
              "reference rule fixed to rectangle (what 'average' means); 1e-9 relative, conditioning-aware.")
TECHNIQUE = "runtime post-condition monitor on the recreate->match pipeline of the real Weaver (independent interval means vs original averages)"
RULE = ("random pipelines: series of 2..60 points x x class x y class x strategy (6) with parameters in documented "
        "ranges x n in 2..64 x {no append, append, append periodic} x target rule {trapezoid, rectangle}; dataset "
        "pipelines: 19 bundled datasets x 6 strategies x n set x 2 rules. non-trivial: matching had to move at least "
        "one interval mean by more than 1e-6 of its scale (or the strategy is piecewise constant, whose rectangle "
        "means are already right); distinct by (case index | dataset, strategy, n, rule)."
        " The factor n is also given as numpy.int64, the default strategy class by omission."
        " Round-4 classes: bursts and mixed step sizes as in C01 with the same local tolerance, series of 1001..1800 averages, the factor as NumPy integer scalar of any width (signed / unsigned), integral_match called positionally."
        " Round-5 classes: the pipeline continued on a copy.deepcopy / pickle duplicate of the live object."
        " Round-6 classes: the pipeline as one chained expression read back from the original name."
        " Round-7 classes: an equal earlier pipeline whose get() arrays the caller edited in place.")
REQUIRED_MONITORS = ["c02:interval_means", "c02:block_average"]
ASSUMPTIONS = ["x strictly increasing; parameters in documented ranges; reference rule = rectangle"]
NSHARDS = 16
DATASETS = ["audio", "cloud", "file_sharing", "fixed_social_media", "gaming", "marketplace", "measurements",
            "messaging", "mobile_messaging", "mobile_social_media", "mobile_video", "mobile_youtube", "mobile_zoom",
            "snapchat", "social_networking", "tiktok", "video_streaming", "vpn_and_security", "web"]


def plan(tier, seed):
    n = 8000 if tier == "quick" else 450000
    specs = [{"kind": "random", "start": p * (n // NSHARDS), "count": n // NSHARDS} for p in range(NSHARDS)]
    ns = [2, 5, 10] if tier == "quick" else list(range(2, 65))
    specs += [{"kind": "datasets", "names": DATASETS[p::8], "ns": ns} for p in range(8)]
    return specs


import os
GSHARE = float(os.environ.get("TWVERIF_GSHARE", "0"))


def pipeline(ctx, cid, x, y, strat, n, kw, append, rule, info):
    """run the real pipeline and judge it; returns True when non-trivial"""
    from traffic_weaver import Weaver
    from traffic_weaver.process import average
    try:
        with fp_watch(ctx):
            if (len(x) + n) % 6 == 0:
                # yesterday's run of the same pipeline on the same data, whose result the caller shifted / rescaled in
                # place afterwards (assembling a week from one day): today's answer starts from the data again
                from .. import callform
                w0 = Weaver(np.array(x, dtype=float, copy=True), np.array(y, dtype=float, copy=True))
                if append is not None:
                    w0.append_one_sample(make_periodic=append)
                w0.recreate_from_average(n, rfa_class=R.cls(strat), **kw)
                callform.scribble(w0.get(), [])
                info["an_equal_earlier_request_was_edited_in_place"] = True
            wv = Weaver(x, y)
            if append is not None:
                wv.append_one_sample(make_periodic=append)
            if (len(x) + 2 * n) % 5 == 0:
                # the pipeline continues on a duplicate of the live object (a copy handed to a worker, a pickle round trip)
                import copy
                import pickle
                wv = copy.deepcopy(wv) if (len(x) + n) % 2 else pickle.loads(pickle.dumps(wv))
                info["continued_on_a_duplicate"] = True
            # a factor taken from a NumPy computation / read from an unsigned column
            n_arg = gen.COUNT_TYPES[(len(x) + n) % len(gen.COUNT_TYPES)](n) if (len(x) + n) % 3 == 0 and n < 256 else n
            chained = (len(x) + 3 * n) % 4 == 0
            if chained:
                # the README's form: one chained expression, the result read back from the ORIGINAL name
                twin = __import__("copy").deepcopy(wv)
                twin.recreate_from_average(n_arg, rfa_class=R.cls(strat), **kw)
                xs0, ys0 = twin.get()
                ys0 = np.array(ys0, dtype=float)
                wv.recreate_from_average(n_arg, rfa_class=R.cls(strat), **kw).integral_match(target_function_integral_method=rule)
                info["chained"] = True
            else:
                if strat == "ExpAdaptiveRFA" and not kw:
                    wv.recreate_from_average(n_arg)                # documented default strategy
                else:
                    wv.recreate_from_average(n_arg, rfa_class=R.cls(strat), **kw)
                xs0, ys0 = wv.get()
                ys0 = np.array(ys0, dtype=float)
                if (len(x) + n) % 2:
                    wv.integral_match(target_function_integral_method=rule)
                else:
                    wv.integral_match(rule)                     # first positional parameter, documented order
            xs, res = wv.get()
    except Exception as e:
        ctx.judged()
        ctx.exception("pipeline_raised", cid, e, {"case": info})
        return False
    ctx.judged()
    xr = np.asarray(x, dtype=float)
    yr = np.asarray(y, dtype=float)
    if append is not None:
        xr = np.append(xr, 2 * xr[-1] - xr[-2])
        yr = np.append(yr, yr[0] if append else yr[-1])
    m = len(xr)
    bad = R.well_formed(xs, res, m, n)
    if bad:
        ctx.violation("malformed_output", cid, {"problem": bad, "case": info})
        return False
    if not np.array_equal(xs[::n], xr):
        ctx.violation("reference_abscissae_not_on_grid", cid, {"case": info})
        return False
    xl, rl, y0l = [float(v) for v in xs], [float(v) for v in res], [float(v) for v in ys0]
    rel = tol.rel_for(xs)
    nontrivial = strat == "PiecewiseConstantRFA"
    gmag = max(float(np.max(np.abs(res))), float(np.max(np.abs(ys0))), float(np.max(np.abs(yr))))
    ctx.monitor("c02:interval_means", m - 1)
    # the end weights of a stretch vanish only to rounding: a fixed point legitimately carries ~eps of the shift
    # factors of the two stretches it belongs to (bounded locally, as in C01 / C03 - see _match.end_leak)
    mini = {"x": xl, "y": y0l, "alpha": 1.0}
    fi = [k * n for k in range(m)]
    yhat = M.yhat_estimates(mini, rl, fi)
    leaks = [M.end_leak(mini, fi, yhat, k - 1) + 2 * M.end_leak(mini, fi, yhat, k) + M.end_leak(mini, fi, yhat, k + 1)
             for k in range(m - 1)]
    for k in range(m - 1):
        width = float(xr[k + 1]) - float(xr[k])
        got = I.integ(xl, rl, k * n, (k + 1) * n, rule)
        want = float(yr[k]) * width
        # terms entering the equation: result, target, and the unmatched input the stretch started from
        # (plus a small share of the global magnitude: the end weights of the neighbouring stretches are zero only
        #  to rounding, so an all-zero interval next to large values legitimately carries ~eps of them)
        sc = I.scale(xl, rl, k * n, (k + 1) * n, rule) + abs(want) + I.scale(xl, y0l, k * n, (k + 1) * n, rule) \
            + GSHARE * gmag * width
        # conditioning of this interval and its two neighbours, not of the whole grid
        rel = tol.REL + tol.cond_local(xs, (k - 1) * n, (k + 2) * n)
        ctx.track_worst("interval_mean_rel_err", tol.err(got, want, sc))
        if not tol.close(got, want, sc, rel) and not abs(got - want) <= rel * max(sc, abs(want)) + leaks[k] * width:
            ctx.violation("interval_mean", cid, {"interval": k, "mean_got": got / width, "average": float(yr[k]),
                                                 "rule": rule, "case": info})
            return False
        if abs(I.integ(xl, y0l, k * n, (k + 1) * n, rule) - want) > 1e-6 * sc:
            nontrivial = True
    if rule == "rectangle":
        try:
            ax, ay = average(xs, res, n)
        except Exception as e:
            ctx.exception("average_raised", cid, e, {"case": info})
            return False
        ctx.monitor("c02:block_average")
        if not (isinstance(ax, np.ndarray) and np.array_equal(ax, xr)):
            ctx.violation("average_abscissae", cid, {"got": ax, "want": xr, "case": info})
            return False
        if not (isinstance(ay, np.ndarray) and len(ay) == m):
            ctx.violation("average_length", cid, {"got": ay, "case": info})
            return False
        for k in range(m - 1):
            sc = float(np.mean(np.abs(res[k * n:(k + 1) * n]))) + abs(float(yr[k])) + \
                float(np.mean(np.abs(ys0[k * n:(k + 1) * n + 1]))) + GSHARE * gmag
            rel = tol.REL + tol.cond_local(xs, (k - 1) * n, (k + 2) * n)
            if not tol.close(ay[k], yr[k], sc, rel) and not abs(float(ay[k]) - float(yr[k])) <= rel * max(sc, abs(float(yr[k]))) + leaks[k]:
                ctx.violation("block_average", cid, {"interval": k, "got": ay[k], "want": yr[k], "case": info})
                return False
    return nontrivial


def run_random_case(ctx, kind_, idx):
    rng = ctx.rng(kind_, idx)
    cid = ctx.case_id(kind_, idx)
    strat = R.ALL[int(rng.integers(0, 6))]
    n = R.gen_n(rng)
    kw, _a = R.gen_params(rng, strat, n)
    x, y, meta = R.gen_series(rng, 2, 60, ties_share=0.3, long_share=R.LONG_SHARE)
    if rng.integers(0, 10) == 0:
        mixed = gen.mixed_steps_x(rng, len(x))
        if mixed is not None:
            x, meta["xcls"] = mixed
    if len(y) >= 4 and rng.integers(0, 10) == 0:
        # burst then idle: a few averages many orders of magnitude above the rest of the same series
        L = float(rng.choice([1e7, 1e9, 1e12, 2.0 ** 55]))
        p = int(rng.integers(0, len(y) - 1))
        y = np.array(y, dtype=float)
        y[p:p + int(rng.integers(1, 3))] = (1.0 + rng.uniform(0, 1)) * L
        meta["ycls"] = str(meta["ycls"]) + "+burst"
    append = [None, False, True][int(rng.integers(0, 3))]
    rule = ["trapezoid", "rectangle"][int(rng.integers(0, 2))]
    info = R.brief(strat, x, y, n, kw, meta)
    info.update({"append": append, "target_rule": rule})
    ctx.count("strategy:%s" % strat)
    ctx.count("rule:%s" % rule)
    ctx.count("append:%s" % append)
    if pipeline(ctx, cid, x, y, strat, n, kw, append, rule, info):
        ctx.nontriv("rnd", idx)
    if idx % 1500 == 4:
        ctx.sample(info)


def run_datasets(ctx, spec):
    from traffic_weaver.datasets import load_dataset
    for name in spec["names"]:
        data = load_dataset("sandvine_" + name)
        x, y = data[:, 0].copy(), data[:, 1].copy()
        for strat in R.ALL:
            for n in spec["ns"]:
                for rule in ("trapezoid", "rectangle"):
                    cid = {"kind": "dataset", "name": name, "strategy": strat, "n": n, "rule": rule, "seed": ctx.seed}
                    info = {"dataset": "sandvine_" + name, "strategy": strat, "n": n, "target_rule": rule,
                            "append": True, "m": len(x)}
                    ctx.count("dataset_pipelines")
                    if pipeline(ctx, cid, x, y, strat, n, {}, True, rule, info):
                        ctx.nontriv("ds", name, strat, n, rule)
        ctx.sample({"dataset": "sandvine_" + name, "points": len(x), "strategies": R.ALL, "ns": spec["ns"][:6]})


def run(ctx, spec):
    if spec["kind"] == "datasets":
        run_datasets(ctx, spec)
    else:
        for idx in range(spec["start"], spec["start"] + spec["count"]):
            run_random_case(ctx, spec["kind"], idx)


def replay(ctx, case):
    if case["kind"] == "dataset":
        from traffic_weaver.datasets import load_dataset
        data = load_dataset("sandvine_" + case["name"])
        pipeline(ctx, case, data[:, 0].copy(), data[:, 1].copy(), case["strategy"], case["n"], {}, True,
                 case["rule"], dict(case))
    else:
        run_random_case(ctx, case["kind"], case["idx"])
