"""C11 - truncation and slicing select exactly the requested range."""
import itertools

import numpy as np

from . import _jobs
from . import _rfa as R
from .. import callform, gen
from ..core import fp_watch
from ..models import domain_ops as D

PROPERTY = "C11"
LEVEL = "exploration"
LEVEL_TEXT = ("Post-condition monitor on process.truncate, Weaver.truncate_by_value / truncate_by_index / slice_by_value "
              "/ slice_by_index against a definitional oracle (scan for the last sample <= left and the first sample "
              ">= right; samples with start <= x <= stop; Python slices), with the Weaver's reference series predicted "
              "by the same oracle on its own samples. Exhaustive over small integer series with all half-integer "
              "bound pairs, random beyond.")
LEVEL_NOTE = ("Ratio bounds are converted with the documented formula left*span + x[0]; cases whose converted bound "
              "falls within 1e-9*span of a sample without being equal to it are discarded (knife edge of a float "
              "formula) and counted.")
TECHNIQUE = "runtime post-condition monitor vs definitional oracle (truncate / slice), exhaustive small scope + random"
RULE = ("exhaustive: integer series x = sorted subsets of {0..7} (2..6 points quick, 2..8 thorough) x all pairs "
        "left < right on the half-integer lattice -1..8.5, through process.truncate; random: series 2..60 points x "
        "bounds {on samples (first, last, interior), inside gaps, outside either end, ratios} x {function, Weaver "
        "fresh, Weaver after recreate (reference and working differ)}, slices with start/stop on samples or omitted "
        "and step 1..4, index ranges. non-trivial: the selected run is a proper sub-range; distinct by case."
        " Also: Weaver requests after random domain histories, an index cut after resampling so that working and reference span different ranges, bounds passed as 0-d / 1-element arrays (must be left untouched), documented defaults by omission."
        " Round-4 classes: infinite bounds (absolute or as ratio), flags and slice arguments positionally in the documented order, series of 1001..1800 samples."
        " Round-5 classes: negative stop (Python slice semantics), pandas Series with absolute bounds."
        " Round-6 classes: a 'huge' kind (66 000..90 000 samples, all values different, bounds beyond sample 2**16, and - round 8 - a left bound strictly inside the gap in front of sample 2**16 / 2**15 / 50 000 / 60 000), abscissae in narrow signed integers spanning their type with ratio bounds."
        " Round-7 classes: truncation after resampling to the same number of points (same length and ends, other grid)."
        " Round-9 classes: a 'threads' kind - ONE Weaver read by several threads (slice_by_value / slice_by_index / getters) and independent truncations; huge sizes also between 2**15 and 2**16."
        " Round-10 classes: int64 / uint64 epoch-nanosecond abscissae sampled below the float64 spacing, cut with float / integer bounds; float64 ticks beyond 2**53 held in a strided table column inside a Weaver, cut with exact integer bounds one tick beside a sample (working series and reference judged).")
REQUIRED_MONITORS = ["threads:weaver_readers", "c11:truncate", "c11:weaver_truncate", "c11:slice_by_value", "c11:slice_by_index",
                     "c11:truncate_by_index"]
ASSUMPTIONS = ["left < right; slicing values are samples of x; index bounds within 0..len (other inputs belong to C20)"]
NSHARDS = 16
LATT = [v / 2.0 for v in range(-2, 18)]


def plan(tier, seed):
    specs = [{"kind": "exhaustive", "part": p, "parts": 8, "maxlen": 6 if tier == "quick" else 8} for p in range(8)]
    n = 24000 if tier == "quick" else 1500000
    specs += [{"kind": "random", "start": p * (n // NSHARDS), "count": n // NSHARDS} for p in range(NSHARDS)]
    # a day of per-second samples: more than 2**16 points (function, Weaver, slicing and index modes in turn)
    specs += [{"kind": "huge", "start": 6 * p, "count": 6} for p in range(1 if tier == "quick" else 8)]
    return specs + _jobs.plan(tier, shards=1)


def exhaustive(tier, merged):
    return ("process.truncate on every strictly increasing integer series over {0..7} with 2..%d points x every bound "
            "pair left < right on the half-integer lattice [-1, 8.5]" % (6 if tier == "quick" else 8))


def eq(a, b):
    return len(a) == len(b) and all(float(u) == float(v) for u, v in zip(a, b))


def run_exhaustive(ctx, spec):
    from traffic_weaver.process import truncate
    j = 0
    for k in range(2, spec["maxlen"] + 1):
        for xs in itertools.combinations(range(8), k):
            j += 1
            if j % spec["parts"] != spec["part"]:
                continue
            x = np.array(xs, dtype=float) if j % 2 else list(xs)
            y = np.array([(7 * v + 3) % 11 for v in xs], dtype=float)
            for l, r in itertools.combinations(LATT, 2):
                cid = {"kind": "exhaustive", "x": list(xs), "left": l, "right": r, "seed": ctx.seed}
                ctx.judged()
                ctx.monitor("c11:truncate")
                try:
                    gx, gy = truncate(x, y, l, r)
                except Exception as e:
                    ctx.exception("truncate_raised", cid, e)
                    continue
                i, jj, _l, _r = D.truncate_bounds(list(xs), l, r)
                if not (eq(gx, xs[i:jj + 1]) and eq(gy, y[i:jj + 1])):
                    ctx.violation("truncate_range", cid, {"got_x": gx, "want_x": list(xs[i:jj + 1])})
                    continue
                if jj - i + 1 < k:
                    ctx.nontriv("ex", xs, l, r)
            if j % 60 == 1:
                ctx.sample({"x": list(xs), "bounds": "all %d pairs on the half-integer lattice" % (len(LATT) * (len(LATT) - 1) // 2)})


def pick_bounds(rng, x):
    """(left, right, left_ratio, right_ratio, discard?)"""
    n = len(x)
    span = float(x[-1] - x[0])

    def one(side):
        t = int(rng.integers(0, 7))
        i = int(rng.integers(0, n))
        if t == 6:
            # both bounds are mandatory: an infinite bound is how "open on this side" is asked for
            return (-np.inf if side == 0 else np.inf), bool(rng.integers(0, 4) == 0)
        if t == 0:
            return float(x[i]), False
        if t == 1:
            return float(x[0]) if side == 0 else float(x[-1]), False
        if t == 2 and n > 1:
            i = min(i, n - 2)
            return float(x[i] + (x[i + 1] - x[i]) * rng.uniform(0.05, 0.95)), False
        if t == 3:
            return (float(x[0]) - abs(float(rng.normal(0, 1))) * span - 1e-6 * span if side == 0
                    else float(x[-1]) + abs(float(rng.normal(0, 1))) * span + 1e-6 * span), False
        if t == 4:
            return float(rng.choice([0.0, 0.25, 0.5, 0.75, 1.0, 0.125])), True
        return float(rng.uniform(0, 1)), True
    for _ in range(20):
        (l, lr), (r, rr) = one(0), one(1)
        la = l * span + float(x[0]) if lr else l
        ra = r * span + float(x[0]) if rr else r
        if la < ra:
            knife = False
            for b, is_ratio in ((la, lr), (ra, rr)):
                if is_ratio:
                    d = np.abs(np.asarray(x, dtype=float) - b)
                    k = int(np.argmin(d))
                    if 0 < d[k] <= 1e-9 * span:
                        knife = True
            return l, r, lr, rr, knife
    return float(x[0]), float(x[-1]), False, False, False


def after_history(rng, wv, info, x, y):
    """slicing is about the CURRENT series: put a random domain history in front of it in 2 of 3 cases"""
    from . import _weaver_ops as W
    if rng.integers(0, 3) == 0:
        return x, y
    info["history"] = W.random_history(rng, wv, 1, 3, allow=W.DOMAIN_OPS, max_len=150)
    gx, gy = wv.get()
    return np.array(gx, dtype=float).copy(), np.array(gy, dtype=float).copy()


def run_random_case(ctx, kind_, idx):
    from traffic_weaver import Weaver
    from traffic_weaver.process import truncate
    rng = ctx.rng(kind_, idx)
    cid = ctx.case_id(kind_, idx)
    x, y, meta = R.gen_series(rng, 2, 60, ties_share=0.2, long_share=R.LONG_SHARE, real_valued=kind_ == "huge",
                              force_m=(gen.huge_size(rng) if idx % 6 != 0 else int(rng.integers(66000, 90001))) if kind_ == "huge" else None)
    if kind_ == "huge":
        y = y + 1e-3 * np.arange(len(y))        # no two samples alike: a cut taken from the wrong place shows
    mode = ["function", "weaver", "weaver_reshaped", "slice_value", "slice_index", "truncate_index"][int(rng.integers(0, 6))]
    if kind_ == "huge":
        mode = ["function", "weaver", "slice_value", "slice_index", "truncate_index", "function"][idx % 6]
    ctx.count("mode:%s" % mode)
    info = {"mode": mode, "m": len(x), "xcls": meta["xcls"]}
    if len(x) <= 12:
        info["x"] = x
    try:
        with fp_watch(ctx):
            if mode == "function" and kind_ != "huge" and rng.integers(0, 12) == 0:
                # 64-bit integer abscissae beyond 2**53 (epoch nanoseconds) sampled more finely than float64 resolves
                # there (256 ns), cut with float or integer bounds: comparing in float64 merges neighbouring samples;
                # the oracle compares Python integers with the bounds exactly
                m_ = max(len(x), 6)
                step_ = int(rng.choice([100, 40, 250, 1]))
                base_ = 1_700_000_000_000_000_000 + int(rng.integers(0, 10 ** 6))
                xi = [base_ + step_ * k for k in range(m_)]
                yi = np.resize(y, m_)
                i0_, i1_ = sorted(int(v) for v in rng.choice(m_, size=2, replace=False))
                tb = int(rng.integers(0, 3))
                if tb == 0:
                    l, r = float(xi[i0_]), float(xi[i1_])            # floats: the nearest doubles of two samples
                elif tb == 1:
                    l, r = xi[i0_] + int(rng.integers(-step_, step_ + 1)), xi[i1_] + int(rng.integers(-step_, step_ + 1))
                else:
                    l, r = np.int64(xi[i0_]), float(xi[i1_] + 3 * step_)
                if not l < r:
                    ctx.discard("bounds_inadmissible_for_one_of_the_two_series")
                    return
                dt_ = np.int64 if rng.integers(0, 2) else np.uint64
                xin = np.array(xi, dtype=dt_)
                info.update({"x_storage": np.dtype(dt_).name + " beyond 2**53", "step": step_, "left": l, "right": r, "m": m_})
                gx, gy = truncate(xin, yi.copy(), l, r)
                ctx.judged()
                ctx.monitor("c11:truncate")
                i, j, _a, _b = D.truncate_bounds(xi, l, r, False, False)
                if not ([int(v) for v in gx] == xi[i:j + 1] and eq(gy, yi[i:j + 1])):
                    ctx.violation("truncate_range", cid, {"got_x": [int(v) for v in gx], "want_x": xi[i:j + 1], "case": info})
                    return
                if j - i + 1 < m_:
                    ctx.nontriv("rnd", idx)
                return
            if mode == "weaver" and kind_ != "huge" and rng.integers(0, 8) == 0:
                # float64 abscissae beyond 2**53 (ticks of a fine clock) held in a STRIDED view - one column of a table -
                # and cut with exact integer bounds one tick beside a sample: float64 would round such a bound onto the
                # sample.  The object's working series (the caller's view) and its reference (a contiguous copy) must
                # both be cut where exact comparison puts the bounds
                m_ = max(len(x), 6)
                gap_ = float(rng.choice([256.0, 1024.0, 4096.0]))
                xf = 2.0 ** 60 + gap_ * np.cumsum(rng.integers(1, 4, m_)).astype(float)
                table = np.empty((m_, 2))
                table[:, 0], table[:, 1] = xf, np.resize(y, m_)
                if rng.integers(0, 2):
                    wv = Weaver(table[:, 0], table[:, 1])
                else:
                    wv = Weaver.from_2d_array(table) if hasattr(Weaver, "from_2d_array") else Weaver(table[:, 0], table[:, 1])
                i0_, i1_ = sorted(int(v) for v in rng.choice(np.arange(1, m_ - 1), size=2, replace=False))
                l = int(xf[i0_]) + int(rng.choice([-1, 1, 0]))
                r = int(xf[i1_]) + int(rng.choice([-1, 1, 0]))
                info.update({"x_storage": "strided float64 beyond 2**53", "left": l, "right": r, "m": m_})
                wv.truncate_by_value(l, r)
                ctx.judged()
                ctx.monitor("c11:weaver_truncate")
                xi = [int(v) for v in xf]
                i, j, _a, _b = D.truncate_bounds(xi, l, r, False, False)
                gw, gr = wv.get()[0], wv.get_reference()[0]
                if [int(v) for v in gw] != xi[i:j + 1]:
                    ctx.violation("weaver_truncate_working", cid, {"got_x": [int(v) for v in gw], "want_x": xi[i:j + 1], "case": info})
                    return
                if [int(v) for v in gr] != xi[i:j + 1]:
                    ctx.violation("weaver_truncate_reference", cid, {"got_x": [int(v) for v in gr], "want_x": xi[i:j + 1], "case": info})
                    return
                if j - i + 1 < m_:
                    ctx.nontriv("rnd", idx)
                return
            if mode == "function":
                narrow = None
                if rng.integers(0, 10) == 0 and kind_ != "huge":
                    # abscissae kept in a narrow signed integer type and using its whole range (offsets around a set
                    # point): the SPAN x[-1] - x[0] does not fit the type
                    dt = [np.int8, np.int16, np.int32][int(rng.integers(0, 3))]
                    lo_, hi_ = int(np.iinfo(dt).min), int(np.iinfo(dt).max)
                    vals = np.unique(np.concatenate([[lo_ + int(rng.integers(0, 20)), hi_ - int(rng.integers(0, 20))],
                                                     rng.integers(lo_, hi_, max(len(x) - 2, 1))]))
                    narrow = vals.astype(dt)
                    x = vals.astype(float)
                    y = np.resize(y, len(x))
                    info["x_storage"] = np.dtype(dt).name
                l, r, lr, rr, knife = pick_bounds(rng, x)
                if kind_ == "huge":
                    # "the last hours of the day": both bounds far into the series
                    i1 = int(0.995 * len(x))
                    i0 = min(max(int(0.78 * len(x)), 2 ** 16 + int(rng.integers(0, 300))), i1 - 50)
                    if idx % 6 == 0:
                        # a bound strictly INSIDE the gap in front of a round sample number (2**16, 2**15, 50 000, ...):
                        # the cut starts at the sample before that number
                        k_edge = [2 ** 16, 2 ** 15, 50000, 2 ** 16 + 1, 60000, 2 ** 16 - 1][(idx // 6) % 6]
                        f_edge = float(rng.choice([0.5, 0.25, 0.999]))
                        l_abs = float(x[k_edge - 1]) + f_edge * float(x[k_edge] - x[k_edge - 1])
                        info["left_bound_inside_the_gap_before_sample"] = k_edge
                        span_ = float(x[-1] - x[0])
                        if rng.integers(0, 2):
                            l, r, lr, rr, knife = l_abs, float(x[i1]) + 0.25 * float(x[i1 + 1] - x[i1]), False, False, False
                        else:
                            l, r, lr, rr, knife = (l_abs - float(x[0])) / span_, (float(x[i1]) - float(x[0])) / span_ - 1e-7, True, True, False
                    elif rng.integers(0, 2):
                        l, r, lr, rr, knife = float(x[i0]), float(x[i1]) + 0.25 * float(x[i1 + 1] - x[i1]), False, False, False
                    else:
                        span_ = float(x[-1] - x[0])
                        l, r, lr, rr, knife = (float(x[i0]) - float(x[0])) / span_ + 1e-7, (float(x[i1]) - float(x[0])) / span_ - 1e-7, True, True, False
                if knife:
                    ctx.discard("ratio_bound_within_rounding_of_a_sample")
                    return
                # pandas columns with a non-positional index only with absolute bounds (a ratio needs x[-1], a label
                # look-up that no Series supports; no property speaks about that)
                kinds = ("array", "list", "int", "strided", "readonly", "tuple") + (() if (lr or rr) else ("series",))
                xin, _k = gen.as_container(rng, x, allow=kinds)
                yin, _k2 = gen.as_container(rng, y, allow=kinds)
                if narrow is not None:
                    xin, _k = narrow, "narrow signed integers"
                    yin, _k2 = np.asarray(y, dtype=float), "array"
                info.update({"left": l, "right": r, "ratios": [lr, rr], "containers": [_k, _k2]})
                gx, gy = truncate(xin, yin, l, r) if not (lr or rr) and rng.integers(0, 2) else \
                    callform.call(rng, truncate, "process.truncate", [xin, yin, l, r],
                                  {"x_left_as_ratio": lr, "x_right_as_ratio": rr}, p_pos=0.5)
                ctx.judged()
                ctx.monitor("c11:truncate")
                i, j, _a, _b = D.truncate_bounds([float(v) for v in x], l, r, lr, rr)
                if not (eq(gx, x[i:j + 1]) and eq(gy, y[i:j + 1])):
                    ctx.violation("truncate_range", cid, {"got_x": gx, "want_x": x[i:j + 1], "case": info})
                    return
                if j - i + 1 < len(x):
                    ctx.nontriv("rnd", idx)
            elif mode in ("weaver", "weaver_reshaped"):
                wv = Weaver(x.copy(), y.copy())
                if rng.integers(0, 2):
                    wv.shift_x(float(rng.normal(0, 3))).scale_y(2.0)
                if mode == "weaver_reshaped" and len(x) >= 4 and rng.integers(0, 3) == 0:
                    # resampled onto as many, equally spaced points: same length and same ends as the reference, another grid
                    wv.interpolate(n=len(x), method=["linear", "constant", "cubic"][int(rng.integers(0, 3))])
                    info["resampled_to_the_same_length"] = True
                elif mode == "weaver_reshaped":
                    n = int(rng.choice([2, 3, 5]))
                    wv.recreate_from_average(n, rfa_class=R.cls(R.ALL[int(rng.integers(0, 6))]))
                    if rng.integers(0, 2) and len(x) >= 4:
                        # cut the working series by index: afterwards working and reference span DIFFERENT ranges, so
                        # "the reference is cut with the same bounds" can no longer be read off the working series
                        m_ref = len(wv.get_reference()[0])
                        start = int(rng.integers(0, max(1, m_ref - 2)))
                        stop = int(rng.integers(start + 2, len(wv.get()[0]) + 1))
                        wv.truncate_by_index(start, stop)
                        info["index_cut_first"] = [start, stop]
                        if len(wv.get()[0]) < 2 or len(wv.get_reference()[0]) < 2:
                            return
                wx, wy = (np.array(a).copy() for a in wv.get())
                rx, ry = (np.array(a).copy() for a in wv.get_reference())
                l, r, lr, rr, knife = pick_bounds(rng, rx if rng.integers(0, 2) else wx)
                if kind_ == "huge" and len(wx) > 2 ** 16 + 10:
                    # left bound inside the gap in front of sample 2**16, right bound at the end of the series
                    l, r, lr, rr, knife = float(wx[2 ** 16 - 1]) + 0.5 * float(wx[2 ** 16] - wx[2 ** 16 - 1]), float(wx[-1]), False, False, False
                    info["left_bound_inside_the_gap_before_sample"] = 2 ** 16
                for arr in (wx, rx):
                    span = float(arr[-1] - arr[0])
                    la = l * span + float(arr[0]) if lr else l
                    ra = r * span + float(arr[0]) if rr else r
                    if not la < ra:          # a (mixed ratio / absolute) range that is empty for one of the two series
                        ctx.discard("bounds_inadmissible_for_one_of_the_two_series")
                        return
                    for b, isr in ((l, lr), (r, rr)):
                        if isr:
                            bb = b * span + float(arr[0])
                            d = np.abs(arr - bb)
                            if 0 < float(np.min(d)) <= 1e-9 * span:
                                knife = True
                if knife:
                    ctx.discard("ratio_bound_within_rounding_of_a_sample")
                    return
                info.update({"left": l, "right": r, "ratios": [lr, rr]})
                la_, ra_ = l, r
                if rng.integers(0, 4) == 0:
                    # bounds computed with NumPy arrive as 0-d / 1-element arrays: mutable objects the call must not touch
                    la_, ra_ = (np.asarray(float(l)), np.asarray(float(r))) if rng.integers(0, 2) else \
                        (np.array([float(l)]), np.array([float(r)]))
                    info["bounds_as_arrays"] = True
                l, r = la_, ra_
                wv.truncate_by_value(l, r) if not (lr or rr) and rng.integers(0, 2) else \
                    callform.call(rng, wv.truncate_by_value, "Weaver.truncate_by_value", [l, r],
                                  {"x_left_as_ratio": lr, "x_right_as_ratio": rr}, p_pos=0.5)
                if info.get("bounds_as_arrays"):
                    if float(np.ravel(l)[0]) != info["left"] or float(np.ravel(r)[0]) != info["right"]:
                        ctx.judged()
                        ctx.violation("bound_argument_modified", cid, {"case": info, "left_now": l, "right_now": r})
                        return
                    l, r = info["left"], info["right"]
                ctx.judged()
                ctx.monitor("c11:weaver_truncate")
                for name, (gx, gy), (sx, sy) in (("working", wv.get(), (wx, wy)), ("reference", wv.get_reference(), (rx, ry))):
                    i, j, _a, _b = D.truncate_bounds([float(v) for v in sx], l, r, lr, rr)
                    if not (eq(gx, sx[i:j + 1]) and eq(gy, sy[i:j + 1])):
                        ctx.violation("weaver_truncate_" + name, cid, {"got_x": gx, "want_x": sx[i:j + 1], "case": info})
                        return
                if len(wv.get()[0]) < len(wx):
                    ctx.nontriv("rnd", idx)
            elif mode == "slice_value":
                wv = Weaver(x.copy(), y.copy())
                x, y = after_history(rng, wv, info, x, y)
                n = len(x)
                a = int(rng.integers(0, n))
                b = int(rng.integers(a, n))
                t = int(rng.integers(0, 5))
                start = None if t in (1, 3) else float(x[a])
                stop = None if t in (2, 3) else float(x[b])
                if t == 4:
                    start = float(x[0])
                st = int(rng.integers(1, 5))
                info.update({"start": start, "stop": stop, "step": st})
                if t == 3 and rng.integers(0, 2):
                    gx, gy = wv.slice_by_value()
                    st = 1
                else:
                    gx, gy = callform.call(rng, wv.slice_by_value, "Weaver.slice_by_value", [],
                                           {"start": start, "stop": stop, "step": st}, p_pos=0.6)
                ctx.judged()
                ctx.monitor("c11:slice_by_value")
                lo = float(x[0]) if start is None else start
                hi = float(x[-1]) if stop is None else stop
                sel = [k for k in range(n) if lo <= float(x[k]) <= hi][::st]
                if not (eq(gx, x[sel]) and eq(gy, y[sel])):
                    ctx.violation("slice_by_value", cid, {"got_x": gx, "want_x": x[sel], "case": info})
                    return
                ctx.nontriv("rnd", idx)
            else:
                wv = Weaver(x.copy(), y.copy())
                x, y = after_history(rng, wv, info, x, y)
                n = len(x)
                start = int(rng.integers(0, n + 1))
                stop = None if rng.integers(0, 4) == 0 else int(rng.integers(0, n + 1))
                if stop is not None and rng.integers(0, 4) == 0:
                    stop = -int(rng.integers(1, n + 1))         # Python slice semantics: counted from the end
                st = int(rng.integers(1, 5))
                info.update({"start": start, "stop": stop, "step": st})
                if rng.integers(0, 6) == 0:
                    start, stop, st = 0, None, 1                 # documented defaults
                    info["defaults"] = True
                if mode == "slice_index":
                    gx, gy = wv.slice_by_index() if info.get("defaults") else \
                        callform.call(rng, wv.slice_by_index, "Weaver.slice_by_index", [],
                                      {"start": start, "stop": stop, "step": st}, p_pos=0.6)
                    ctx.judged()
                    ctx.monitor("c11:slice_by_index")
                    if not (eq(gx, x[start:stop:st]) and eq(gy, y[start:stop:st])):
                        ctx.violation("slice_by_index", cid, {"got_x": gx, "want_x": x[start:stop:st], "case": info})
                        return
                else:
                    wv.truncate_by_index() if info.get("defaults") else \
                        callform.call(rng, wv.truncate_by_index, "Weaver.truncate_by_index", [],
                                      {"start": start, "stop": stop}, p_pos=0.6)
                    ctx.judged()
                    ctx.monitor("c11:truncate_by_index")
                    for name, (gx, gy) in (("working", wv.get()), ("reference", wv.get_reference())):
                        if not (eq(gx, x[start:stop]) and eq(gy, y[start:stop])):
                            ctx.violation("truncate_by_index_" + name, cid, {"got_x": gx, "want_x": x[start:stop],
                                                                             "case": info})
                            return
                ctx.nontriv("rnd", idx)
    except Exception as e:
        ctx.judged()
        ctx.exception("raised_on_admissible_input", cid, e, {"case": info})
        return
    if idx % 4000 == 10:
        ctx.sample(info)


def run(ctx, spec):
    if spec["kind"] in ("threads", "threads_cold"):      # one Weaver read by several threads at once
        return _jobs.run(ctx, spec, ["weaver_readers", "domain"])
    if spec["kind"] == "exhaustive":
        run_exhaustive(ctx, spec)
    else:
        for idx in range(spec["start"], spec["start"] + spec["count"]):
            run_random_case(ctx, spec["kind"], idx)


def replay(ctx, case):
    if case["kind"] in ("threads", "threads_cold"):
        return _jobs.run_case(ctx, ["weaver_readers", "domain"], case["idx"], cold=case["kind"] == "threads_cold")
    if case["kind"] == "exhaustive":
        from traffic_weaver.process import truncate
        xs = case["x"]
        y = np.array([(7 * v + 3) % 11 for v in xs], dtype=float)
        gx, gy = truncate(np.array(xs, dtype=float), y, case["left"], case["right"])
        i, j, _l, _r = D.truncate_bounds(xs, case["left"], case["right"])
        ctx.judged()
        if not (eq(gx, xs[i:j + 1]) and eq(gy, y[i:j + 1])):
            ctx.violation("truncate_range", case, {"got_x": gx, "want_x": xs[i:j + 1]})
    else:
        run_random_case(ctx, case["kind"], case["idx"])
