"""Request factories for the thread-isolation kind shared by the checks (see twverif/threads.py).

A family yields (description, factory) pairs; factory() builds a fresh zero-argument request on its own copies of the
data, so that a request can be issued once sequentially and again, concurrently, in every round."""
import numpy as np

from . import _match as M
from . import _rfa as R
from . import _weaver_ops as W
from .. import gen, threads


def rfa_jobs(rng, k, idx=None):
    out = []
    shared_groups = 0
    while len(out) < k:
        strat = R.ALL[int(rng.integers(0, 6))]
        if idx is not None and shared_groups < 2:          # the shared objects walk through all six strategies
            strat = R.ALL[(2 * idx + shared_groups) % 6]
        n = int(rng.choice([4, 8, 16, 32]))
        kw, _a = R.gen_params(rng, strat, n)
        x, y, _m = R.gen_series(rng, 8, 60, ties_share=0.3)
        via = bool(rng.integers(0, 3) == 0)
        if shared_groups < 2 and len(out) + 3 <= k:
            # ONE strategy object asked for its series by several threads at once: rfa() does not change the object
            holder = {}

            def shared(strat=strat, n=n, kw=kw, x=x, y=y, holder=holder):
                if "obj" not in holder:
                    holder["obj"] = R.cls(strat)(x.copy(), y.copy(), n, **kw)
                return holder["obj"].rfa
            out += [("%s n=%d m=%d, one object shared by the threads" % (strat, n, len(x)), shared)] * 3
            shared_groups += 1
            continue

        def factory(strat=strat, n=n, kw=kw, x=x, y=y, via=via):
            xs, ys = x.copy(), y.copy()
            if via:
                from traffic_weaver import Weaver
                return lambda: Weaver(xs, ys).recreate_from_average(n, rfa_class=R.cls(strat), **kw).get()
            return lambda: R.cls(strat)(xs, ys, n, **kw).rfa()
        out.append(("%s n=%d m=%d%s" % (strat, n, len(x), " via Weaver" if via else ""), factory))
    return out


def interp_jobs(rng, k):
    from traffic_weaver import Weaver
    from traffic_weaver.process import interpolate
    out = []
    for _ in range(k):
        x, y, _m = R.gen_series(rng, 6, 80, ties_share=0.2)
        method = ["linear", "constant", "cubic", "constant"][int(rng.integers(0, 4))]
        g = np.sort(rng.uniform(float(x[0]), float(x[-1]), int(rng.integers(20, 400))))
        if rng.integers(0, 2):
            out.append(("interpolate %s m=%d grid=%d" % (method, len(x), len(g)),
                        lambda x=x, y=y, g=g, method=method: (lambda a=x.copy(), b=y.copy(), c=g.copy():
                                                              interpolate(a, b, c, method=method))))
        else:
            n = int(rng.integers(10, 300))
            out.append(("Weaver.interpolate(n=%d, %s) m=%d" % (n, method, len(x)),
                        lambda x=x, y=y, n=n, method=method: (lambda a=x.copy(), b=y.copy():
                                                              Weaver(a, b).interpolate(n=n, method=method).get())))
    return out


def match_jobs(rng, k):
    from traffic_weaver.match import integral_matching_reference_stretch
    out = []
    while len(out) < k:
        case = M.gen_case(rng, max_m=200)
        if M.resolve(case) is None:
            continue
        kw = M.call_args(case)

        def factory(case=case, kw=kw):
            args = [np.array(case[name], dtype=float) for name in ("x", "y", "x_ref", "y_ref")]
            return lambda: integral_matching_reference_stretch(*args, **kw)
        out.append(("match m=%d K=%d %s" % (case["m"], case["K"], case["mode"]), factory))
    return out


def search_jobs(rng, k):
    import traffic_weaver.sorted_array_utils as U
    out = []
    for _ in range(k):
        n = int(rng.integers(50, 600))
        x = np.cumsum(rng.uniform(0.1, 2, n)) + float(rng.normal(0, 10))
        q = np.sort(rng.uniform(float(x[0]) - 1, float(x[-1]) + 1, int(rng.integers(20, 200))))
        strategy = ["closest", "lower", "higher"][int(rng.integers(0, 3))]
        out.append(("search %s n=%d q=%d" % (strategy, n, len(q)),
                    lambda x=x, q=q, strategy=strategy: (lambda a=x.copy(), b=q.copy():
                                                         U.find_closest_element_indices_to_values(a, b, strategy))))
    return out


def domain_jobs(rng, k):
    from traffic_weaver import process
    import traffic_weaver.sorted_array_utils as U
    out = []
    for _ in range(k):
        x, y, _m = R.gen_series(rng, 8, 120, ties_share=0.2)
        t = int(rng.integers(0, 6))
        if t == 0:
            l, r = sorted(rng.uniform(float(x[0]), float(x[-1]), 2))
            out.append(("truncate", lambda x=x, y=y, l=l, r=r: (lambda a=x.copy(), b=y.copy(): process.truncate(a, b, l, r))))
        elif t == 1:
            rep = int(rng.integers(2, 9))
            out.append(("repeat %d" % rep, lambda x=x, y=y, rep=rep: (lambda a=x.copy(), b=y.copy(): process.repeat(a, b, rep))))
        elif t == 2:
            td = W.gen_trend(rng, x, y, False, families=["poly", "sin", "poly_sum", "math_sin", "step", "late_ramp"])
            out.append(("trend %s" % td["family"],
                        lambda x=x, y=y, td=td: (lambda a=x.copy(), b=y.copy(), f=W.trend_fun(td): process.trend(a, b, f))))
        elif t == 3:
            if float(np.min(y)) == float(np.max(y)):
                continue
            out.append(("normalize", lambda y=y: (lambda b=y.copy(): process.normalize(b, -1.0, 3.0))))
        elif t == 4:
            n = int(rng.integers(2, 12))
            out.append(("average %d" % n, lambda x=x, y=y, n=n: (lambda a=x.copy(), b=y.copy(): process.average(a, b, n))))
        else:
            n = int(rng.integers(2, 12))
            out.append(("oversample %d" % n, lambda x=x, y=y, n=n: (lambda a=x.copy(), b=y.copy():
                                                                     (U.oversample_linspace(a, n),
                                                                      U.oversample_piecewise_constant(b, n)))))
    return out


def weaver_cold_jobs(rng, k):
    """short fixed-shape Weaver programs that are NOT tried out beforehand (nothing of the library runs before the
    first concurrent round)"""
    from traffic_weaver import Weaver
    out = []
    for _ in range(k):
        x, y, _m = R.gen_series(rng, 6, 40, ties_share=0.0)
        t = int(rng.integers(0, 5))
        n = int(rng.integers(2, 9))
        if t == 0:
            d, f = "recreate_from_average(%d) > integral_match" % n, \
                (lambda x=x, y=y, n=n: (lambda a=x.copy(), b=y.copy(): Weaver(a, b).recreate_from_average(n).integral_match().get()))
        elif t == 1:
            method = ["linear", "constant", "cubic"][int(rng.integers(0, 3))]
            g = int(rng.integers(5, 200))
            d, f = "interpolate(n=%d, %s)" % (g, method), \
                (lambda x=x, y=y, g=g, method=method: (lambda a=x.copy(), b=y.copy(): Weaver(a, b).interpolate(n=g, method=method).get()))
        elif t == 2:
            c = float(rng.uniform(-3, 3))
            d, f = "repeat(%d) > shift_y > scale_x" % n, \
                (lambda x=x, y=y, n=n, c=c: (lambda a=x.copy(), b=y.copy(): Weaver(a, b).repeat(n).shift_y(c).scale_x(2.0).get()))
        elif t == 3:
            d, f = "trend > normalize_y", \
                (lambda x=x, y=y: (lambda a=x.copy(), b=y.copy(): Weaver(a, b).trend(lambda v: 0.5 * v + 1.0).normalize_y(0.0, 1.0).get()))
        else:
            lo, hi = float(x[1]), float(x[-2])
            d, f = "truncate_by_value > append_one_sample", \
                (lambda x=x, y=y, lo=lo, hi=hi: (lambda a=x.copy(), b=y.copy():
                                                 Weaver(a, b).truncate_by_value(lo, hi).append_one_sample().get()))
        out.append(("program " + d, f))
    return out


def weaver_reader_jobs(rng, k):
    """ONE Weaver read by all threads: slices by value / by index and the getters return views or copies and leave the
    object as it was, so what one reader is given must not depend on what the others are asking"""
    from traffic_weaver import Weaver
    x, y, _m = R.gen_series(rng, 300, 3000, ties_share=0.0)
    holder = {}

    def obj():
        if "wv" not in holder:
            holder["wv"] = Weaver(x.copy(), y.copy())
        return holder["wv"]
    out = []
    n = len(x)
    for _ in range(k):
        t = int(rng.integers(0, 4))
        i, j = sorted(int(v) for v in rng.integers(0, n, 2))
        step = int(rng.integers(1, 4))
        if t == 0 or t == 1:
            a, b = float(x[i]), float(x[j])
            out.append(("shared Weaver: slice_by_value(%r, %r, %d)" % (a, b, step),
                        lambda a=a, b=b, step=step: (lambda: tuple(np.array(v) for v in obj().slice_by_value(a, b, step)))))
        elif t == 2:
            out.append(("shared Weaver: slice_by_index(%d, %d, %d)" % (i, j + 1, step),
                        lambda i=i, j=j, step=step: (lambda: tuple(np.array(v) for v in obj().slice_by_index(i, j + 1, step)))))
        else:
            out.append(("shared Weaver: get() + get_reference()",
                        lambda: (lambda: tuple(np.array(v) for v in obj().get() + obj().get_reference()))))
    return out


NO_THREADS = ("noise", "smooth")            # numpy.random is process-global by contract; FITPACK is third-party


def weaver_jobs(rng, k):
    """random admissible programs over the Weaver API, each replayed on its own fresh object"""
    from traffic_weaver import Weaver
    allow = [m for m in W.MUTATORS if m not in NO_THREADS]
    out = []
    for _ in range(k):
        x, y, _m = R.gen_series(rng, 6, 40, ties_share=0.25)
        scratch = Weaver(x.copy(), y.copy())
        prog = []
        for _i in range(int(rng.integers(2, 7))):
            op = W.gen_op(rng, scratch, allow=allow)
            if op is None or (op["op"] == "interpolate" and op["kw"].get("method") == "spline"):
                continue
            if op["op"] == "repeat" and len(scratch.get()[0]) * int(op["args"][0]) > 600:
                continue
            if op["op"] == "recreate_from_average" and (len(scratch.get()[0]) - 1) * int(op["args"][0]) + 1 > 600:
                continue
            try:
                W.apply(scratch, op)
            except Exception:               # the sequential kinds judge this; here only isolation is observed
                break
            prog.append(op)

        def factory(x=x, y=y, prog=prog):
            def request():
                wv = Weaver(x.copy(), y.copy())
                for op in prog:
                    W.apply(wv, op)
                return wv.get() + wv.get_reference() + wv.get_original()
            return request
        out.append(("program " + ">".join(op["op"] for op in prog), factory))
    return out


FAMILIES = {"weaver_readers": weaver_reader_jobs, "weaver_cold": weaver_cold_jobs, "rfa": rfa_jobs, "interp": interp_jobs, "match": match_jobs, "search": search_jobs, "domain": domain_jobs,
            "weaver": weaver_jobs}


def plan(tier, shards=2):
    n = 3 if tier == "quick" else 60
    cold = 4 if tier == "quick" else 24
    # every "threads_cold" spec is a process of its own whose FIRST use of the library is a concurrent round
    return [{"kind": "threads", "start": p * n, "count": n} for p in range(shards)] + \
        [{"kind": "threads_cold", "start": 1000 + p, "count": 1} for p in range(cold)]


def run_case(ctx, families, idx, cold=False):
    rng = ctx.rng("threads", idx)
    cid = ctx.case_id("threads_cold" if cold else "threads", idx)
    fam = families[idx % len(families)]             # every family of the check in turn (no family left to chance)
    rng.integers(0, len(families))
    if cold and fam == "weaver":        # that family tries its programs out while generating them
        fam = "weaver_cold"
    jobs = FAMILIES[fam](rng, 8, **({"idx": idx} if fam == "rfa" else {}))
    if len(jobs) < 2:
        return
    ctx.judged()
    ctx.count("threads:%s" % fam)
    if threads.isolation(ctx, cid, jobs, fam, cold=cold):
        ctx.nontriv("threads", fam, idx)
    if idx % 10 == 1:
        ctx.sample({"concurrent_requests": [d for d, _f in jobs], "family": fam})


def run(ctx, spec, families):
    for j, idx in enumerate(range(spec["start"], spec["start"] + spec["count"])):
        run_case(ctx, families, idx, cold=(spec.get("kind") == "threads_cold" and j == 0))


def monitors(families):
    return ["threads:" + f for f in families] + ["threads:first_use:" + ("weaver_cold" if f == "weaver" else f) for f in families]
