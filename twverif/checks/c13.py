"""C13 - interpolation honours the data and the requested grid."""
import numpy as np

from . import _rfa as R
from .. import callform, gen, tol
from ..core import fp_watch
from ..models import search as S

from . import _jobs  # noqa: E402

PROPERTY = "C13"
LEVEL = "exploration"
LEVEL_TEXT = ("Post-condition monitor on process.interpolate and Weaver.interpolate per method against definitional "
              "oracles: data reproduced at the original abscissae (bit for bit for linear / constant, to rounding for "
              "cubic / spline), 'constant' = value of the last sample at or before the point (first value left of the "
              "data), 'linear' = chord between the bracketing samples, affine data reproduced by linear / cubic / "
              "spline inside the range; Weaver.interpolate(n) gives exactly n linspace points with bit-identical end "
              "points and refuses an explicit grid with other end points. Sampled.")
LEVEL_NOTE = ("Own piecewise formulas for linear / constant; for cubic / spline only the stated facts are judged (SciPy "
              "internals are not re-implemented), at 1e-9 relative to the data magnitude times the spacing ratio and grid conditioning "
              "(spline systems on 1:1000 spacing ratios amplify rounding).")
TECHNIQUE = "runtime post-condition monitor per interpolation method vs definitional oracles; Weaver grid contract monitor; thread-isolation monitor (concurrent vs sequential answers, first-use rounds with sys.monitoring yield injection)"
RULE = ("case = series of 4..60 points x x class x y class (or affine data) x method x new grid {original abscissae, "
        "inside, on samples and +-1 ulp beside, beyond both ends (judged for 'constant' only)} through the function "
        "(list / array containers) or Weaver.interpolate(n in 2..500 | explicit grid). non-trivial: grid contains "
        "points that are not samples; distinct by case index."
        " Also: integer-dtype and pandas-Series grids, the documented 'left' keyword of the constant method together with a grid point equal to x[0], Weaver requests after random range-changing histories, method omitted (default linear)."
        " Round-4 classes: method as 4th positional argument / new_x and n by position, n as NumPy integer scalar, series of 1001..1800 samples."
        " Round-5 classes: a 'threads' kind (concurrent interpolation requests, all methods except the FITPACK spline)."
        " Round-6 classes: n given next to an explicit grid (documented: ignored)."
        " Round-7 classes: a 'huge' kind - new grids of 66 000..90 000 points (Weaver.interpolate(n) and explicit grids), methods constant / linear / cubic."
        " Round-8 classes: huge SOURCE series (66 000..90 000 samples) looked up at a few hundred points, some inside the gaps in front of sample 2**15 / 2**16 / 50 000 / 60 000; first use of the library from several threads at once."
        " Round-9 classes: huge source series also of 32 769..65 535 samples."
        " Round-10 classes: Weaver.interpolate(n, 'constant') onto more than 2**20 points.")
REQUIRED_MONITORS = ["threads:interp", "threads:first_use:interp", "threads:first_use_yields_injected", "c13:at_samples", "c13:constant", "c13:linear", "c13:affine", "c13:weaver_grid", "c13:grid_rejected"]
ASSUMPTIONS = ["x strictly increasing, >= 4 points, new grid sorted (non-decreasing)",
               "extrapolation of linear / cubic / spline is outside the statement and not judged"]
NSHARDS = 16
METHODS = ["linear", "constant", "cubic", "spline"]
SMOOTH_REL = 1e-9


def plan(tier, seed):
    return _plan(tier, seed) + _jobs.plan(tier)


def _plan(tier, seed):
    n = 16000 if tier == "quick" else 1000000
    return [{"kind": "random", "start": p * (n // NSHARDS), "count": n // NSHARDS} for p in range(NSHARDS)] + \
        [{"kind": "huge", "start": 4 * p, "count": 4} for p in range(3 if tier == "quick" else 9)]


def make_grid(rng, x, beyond):
    n = len(x)
    pts = []
    k = int(rng.integers(2, 40))
    for _ in range(k):
        t = int(rng.integers(0, 6))
        i = int(rng.integers(0, n))
        if t == 0:
            pts.append(x[i])
        elif t == 1:
            pts.append(np.nextafter(x[i], np.inf) if i < n - 1 else x[i])
        elif t == 2:
            pts.append(np.nextafter(x[i], -np.inf) if i > 0 else x[i])
        elif t == 3 and beyond:
            pts.append(x[0] - abs(rng.normal(0, 1)) * (x[-1] - x[0]) if rng.integers(0, 2)
                       else x[-1] + abs(rng.normal(0, 1)) * (x[-1] - x[0]))
        else:
            pts.append(rng.uniform(x[0], x[-1]))
    return np.sort(np.array(pts, dtype=float))


def run_case(ctx, kind_, idx):
    from traffic_weaver import Weaver
    from traffic_weaver.process import interpolate
    rng = ctx.rng(kind_, idx)
    cid = ctx.case_id(kind_, idx)
    long_source = kind_ == "huge" and (idx // 4) % 3 == 2
    x, y, meta = R.gen_series(rng, 4, 60, ties_share=0.2, long_share=0.0 if kind_ == "huge" else R.LONG_SHARE,
                              force_m=gen.huge_size(rng) if long_source else None)
    if long_source:
        y = y + 1e-3 * np.arange(len(y))        # no two samples alike
    method = METHODS[int(rng.integers(0, 4))]
    if kind_ == "huge":
        method = ["constant", "linear", "constant", "cubic"][idx % 4]
    affine = bool(rng.integers(0, 4) == 0)
    if affine:
        a, b = float(rng.normal(0, 2)), float(rng.normal(0, 5))
        y = a * (x - x[0]) + b
        meta["ycls"] = "affine"
    mode = ["function", "function", "weaver_n", "weaver_grid", "weaver_bad_grid"][int(rng.integers(0, 5))]
    if kind_ == "huge":
        # hourly averages expanded to one point per second: a new grid of more than 2**16 points
        mode = ["weaver_n", "function"][(idx // 4) % 2] if not long_source else "function"
    info = {"mode": mode, "method": method, "m": len(x), "xcls": meta["xcls"], "ycls": meta["ycls"]}
    if len(x) <= 10:
        info.update({"x": x, "y": y})
    ctx.count("method:%s" % method)
    ctx.count("mode:%s" % mode)
    wv0 = None
    if mode.startswith("weaver") and rng.integers(0, 3):
        # the grid contract is about the CURRENT series: issue the request after a random history of range-changing
        # operations (a fresh object cannot tell 'current' from 'original')
        from . import _weaver_ops as W
        wv0 = Weaver(x.copy(), y.copy())
        hist = []
        for _ in range(int(rng.integers(1, 4))):
            op = W.gen_op(rng, wv0, allow=["shift_x", "scale_x", "truncate_by_value", "truncate_by_index",
                                           "append_one_sample", "shift_y", "scale_y", "repeat"])
            if op is None or (op["op"] == "repeat" and len(wv0.get()[0]) > 60):
                continue
            W.apply(wv0, op)
            hist.append(W.printable(op))
        if len(wv0.get()[0]) < 4:
            wv0 = None
        else:
            info["history"] = hist
            x, y = (np.array(a, dtype=float).copy() for a in wv0.get())
            affine = False          # the history may have bent the data (periodic append, repeat) or changed a, b
            ctx.count("weaver_after_history")
    try:
        with fp_watch(ctx):
            if mode == "weaver_bad_grid":
                wv = wv0 if wv0 is not None else Weaver(x.copy(), y.copy())
                g = np.linspace(x[0], x[-1], int(rng.integers(4, 30)))
                which = int(rng.integers(0, 3))
                if which in (0, 2):
                    g[0] = x[0] - 0.1 * (x[1] - x[0])
                if which in (1, 2):
                    g[-1] = x[-1] + 0.1 * (x[-1] - x[-2])
                ctx.judged()
                ctx.monitor("c13:grid_rejected")
                try:
                    wv.interpolate(new_x=g if rng.integers(0, 2) else list(g), method=method)
                except ValueError:
                    if np.array_equal(wv.get()[0], x) and np.array_equal(wv.get()[1], y):
                        ctx.nontriv("c13", idx)
                    else:
                        ctx.violation("rejected_grid_changed_state", cid, {"case": info})
                    return
                ctx.violation("grid_with_other_end_points_accepted", cid, {"grid": g, "case": info})
                return
            if mode == "weaver_n":
                wv = wv0 if wv0 is not None else Weaver(x.copy(), y.copy())
                n = int(rng.choice([2, 3, 5, 10, 100, 500, int(rng.integers(2, 501))]))
                if kind_ == "huge":
                    n = int(rng.integers(66000, 90002))
                    if method == "constant" and idx % 12 == 2:
                        # daily averages expanded to one point per second over two weeks: more than 2**20 new points
                        n = int(rng.integers(2 ** 20 + 50000, 2 ** 20 + 300000))
                info["n"] = n
                n_arg, info["n_type"] = gen.count_arg(rng, n)
                wv.interpolate(n_arg) if method == "linear" and rng.integers(0, 2) else \
                    callform.call(rng, wv.interpolate, "Weaver.interpolate", [], {"n": n_arg, "method": method})
                gx, gy = wv.get()
                ctx.judged()
                ctx.monitor("c13:weaver_grid")
                if not (isinstance(gx, np.ndarray) and isinstance(gy, np.ndarray) and len(gx) == n and len(gy) == n):
                    ctx.violation("weaver_grid_length", cid, {"len": [len(gx), len(gy)], "n": n, "case": info})
                    return
                if not (gx[0] == x[0] and gx[-1] == x[-1]):
                    ctx.violation("weaver_grid_end_points", cid, {"got": [gx[0], gx[-1]], "want": [x[0], x[-1]],
                                                                  "case": info})
                    return
                step = (x[-1] - x[0]) / (n - 1)
                if not np.max(np.abs(np.diff(gx) - step)) <= (1e-9 + tol.cond_x(gx)) * abs(step) + 4 * tol.EPS * np.max(np.abs(x)):
                    ctx.violation("weaver_grid_not_equally_spaced", cid, {"case": info})
                    return
                new_x, got = gx, gy
            else:
                new_x = x.copy() if rng.integers(0, 4) == 0 else make_grid(rng, x, beyond=True)
                if long_source:
                    # a day of per-second samples looked up at a few hundred points, some of them inside the gaps in
                    # front of round sample numbers
                    ks = np.array([k_ for k_ in (2 ** 16, 2 ** 16 + 1, 2 ** 15, 50000, 60000, 2 ** 16 - 1, 2 ** 15 + 1, 40000) if k_ < len(x) - 1])
                    fr = rng.choice([0.5, 0.25, 0.999, 0.0], len(ks))
                    at_edges = x[ks - 1] + fr * (x[ks] - x[ks - 1])
                    new_x = np.sort(np.concatenate([at_edges, rng.uniform(float(x[0]), float(x[-1]), int(rng.integers(100, 400)))]))
                    info["long_source"] = len(x)
                elif kind_ == "huge":
                    span_ = float(x[-1] - x[0])
                    new_x = np.sort(np.concatenate([x, rng.uniform(float(x[0]) - 0.02 * span_, float(x[-1]) + 0.02 * span_,
                                                                   int(rng.integers(66000, 90001)))]))
                if mode == "weaver_grid":
                    inner = new_x[(new_x > x[0]) & (new_x < x[-1])]
                    new_x = np.concatenate([[x[0]], inner, [x[-1]]])
                    wv = wv0 if wv0 is not None else Weaver(x.copy(), y.copy())
                    arg = [new_x, [float(v) for v in new_x], gen.as_container(rng, new_x, allow=("series",))[0]][int(rng.integers(0, 3))]
                    req = {"new_x": arg, "method": method}
                    if rng.integers(0, 3) == 0:
                        req["n"] = int(rng.integers(2, 60))       # documented: n is "ignored if new_x specified"
                        info["n_given_next_to_the_grid"] = req["n"]
                    callform.call(rng, wv.interpolate, "Weaver.interpolate", [], req)
                    gx, got = wv.get()
                    ctx.monitor("c13:weaver_grid")
                    if not (isinstance(gx, np.ndarray) and np.array_equal(gx, new_x)):
                        ctx.judged()
                        ctx.violation("weaver_explicit_grid_not_kept", cid, {"case": info})
                        return
                else:
                    xin, _a = gen.as_container(rng, x, allow=("array", "list", "readonly", "series", "tuple"))
                    yin, _b = gen.as_container(rng, y, allow=("array", "list", "readonly", "series", "tuple"))
                    if np.all(x == np.round(x)) and rng.integers(0, 2):
                        # integer-valued abscissae: an integer-dtype grid (arange / list of ints) is the natural request
                        lo_, hi_ = int(x[0]) - 2, int(x[-1]) + 2
                        new_x = np.unique(rng.integers(lo_, hi_ + 1, int(rng.integers(2, 30)))).astype(float)
                        garg = new_x.astype(np.int64) if rng.integers(0, 2) else [int(v) for v in new_x]
                        info["grid_dtype"] = "int"
                        ctx.count("integer_dtype_grid")
                    else:
                        garg = new_x if rng.integers(0, 2) else [float(v) for v in new_x]
                    if method == "constant" and rng.integers(0, 3) == 0:
                        # documented keyword of the piecewise-constant method: value to the left of the data
                        left_value = float(rng.normal(0, 3))
                        info["left"] = left_value
                        if rng.integers(0, 2) and isinstance(garg, np.ndarray) and garg.dtype.kind == "f":
                            garg = np.sort(np.append(garg, [x[0], x[0] - abs(rng.normal(0, 1)) - 1e-9]))
                            new_x = np.asarray(garg, dtype=float)
                        got = callform.call(rng, interpolate, "process.interpolate", [xin, yin, garg],
                                            {"method": method, "left": left_value})
                    else:
                        got = interpolate(xin, yin, garg) if method == "linear" and rng.integers(0, 2) else \
                            callform.call(rng, interpolate, "process.interpolate", [xin, yin, garg], {"method": method})
                ctx.judged()
            mag = float(np.max(np.abs(y))) or 1.0
            gaps = np.diff(x)
            ratio = float(np.max(gaps) / np.min(gaps))
            srel = SMOOTH_REL * max(1.0, ratio) + tol.cond_x(x) * 100
            if not (isinstance(got, np.ndarray) and got.shape == (len(new_x),)):
                ctx.violation("result_shape", cid, {"type": type(got).__name__, "case": info})
                return
            xl = [float(v) for v in x]
            inside = (new_x >= x[0]) & (new_x <= x[-1])
            # --- data reproduction at samples
            xset = set(xl)
            on = [(j, xl.index(float(q))) for j, q in enumerate(new_x) if float(q) in xset]
            if on:
                ctx.monitor("c13:at_samples")
                for j, i in on:
                    if method in ("linear", "constant"):
                        ok = float(got[j]) == float(y[i])
                    else:
                        ok = abs(float(got[j]) - float(y[i])) <= srel * mag
                        ctx.track_worst("smooth_at_samples_rel", abs(float(got[j]) - float(y[i])) / mag / max(1.0, ratio))
                    if not ok:
                        ctx.violation("data_not_reproduced", cid, {"at": float(new_x[j]), "got": float(got[j]),
                                                                   "want": float(y[i]), "case": info})
                        return
            if method == "constant":
                ctx.monitor("c13:constant")
                for j, q in enumerate(new_x):
                    i = S.lower(xl, float(q), True)
                    want = (info["left"] if "left" in info else float(y[0])) if q < x[0] else float(y[i])
                    if float(got[j]) != want:
                        ctx.violation("constant_value", cid, {"at": float(q), "got": float(got[j]), "want": want,
                                                              "case": info})
                        return
            if method == "linear":
                ctx.monitor("c13:linear")
                for j, q in enumerate(new_x):
                    if not inside[j]:
                        continue
                    i = min(S.lower(xl, float(q), True), len(x) - 2)
                    t = (float(q) - xl[i]) / (xl[i + 1] - xl[i])
                    want = float(y[i]) + (float(y[i + 1]) - float(y[i])) * t
                    sc = max(abs(float(y[i])), abs(float(y[i + 1])), 1e-300)
                    if not abs(float(got[j]) - want) <= (1e-9 + tol.cond_x(x)) * sc:
                        ctx.violation("linear_value", cid, {"at": float(q), "got": float(got[j]), "want": want,
                                                            "case": info})
                        return
            if affine and method != "constant":
                ctx.monitor("c13:affine")
                want = a * (new_x - x[0]) + b
                sc = abs(a) * (x[-1] - x[0]) + abs(b) + 1e-300
                e = float(np.max(np.abs(got[inside] - want[inside]) / sc)) if np.any(inside) else 0.0
                ctx.track_worst("affine_rel", e / max(1.0, ratio))
                if not e <= (srel if method != "linear" else 1e-9 + tol.cond_x(x)):
                    ctx.violation("affine_not_reproduced", cid, {"err": e, "case": info})
                    return
            if np.any(inside & ~np.isin(new_x, x)):
                ctx.nontriv("c13", idx)
    except Exception as e:
        ctx.judged()
        ctx.exception("raised_on_admissible_input", cid, e, {"case": info})
        return
    if idx % 2500 == 14:
        ctx.sample(info)


def run(ctx, spec):
    if spec["kind"] in ("threads", "threads_cold"):      # concurrent independent requests vs their sequential answers
        return _jobs.run(ctx, spec, ["interp"])
    for idx in range(spec["start"], spec["start"] + spec["count"]):
        run_case(ctx, spec["kind"], idx)


def replay(ctx, case):
    if case["kind"] in ("threads", "threads_cold"):
        return _jobs.run_case(ctx, ["interp"], case["idx"], cold=case["kind"] == "threads_cold")
    run_case(ctx, case["kind"], case["idx"])
