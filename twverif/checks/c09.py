"""C09 - Weaver state stays well-formed; caller data and the original are never corrupted."""
import copy

import numpy as np

from . import _rfa as R
from . import _weaver_ops as W
from .. import gen, tol
from ..core import fingerprint, fp_watch
from ..monitors import weaver_inv
from ..monitors.contracts import Slot

from . import _jobs  # noqa: E402

PROPERTY = "C09"
LEVEL = "exploration"
LEVEL_TEXT = ("Three monitors on the real Weaver over random programs of up to 10 operations from the whole public API: "
              "(1) a class invariant attached with icontract.invariant (1-D equal-length finite ndarrays, strictly "
              "increasing x) evaluated around every public method; (2) a write sanitizer - every caller-owned array is "
              "fingerprinted (half of the runs hand in read-only arrays / pandas columns) and re-checked after each "
              "call, and the stored original is fingerprinted across every non-normalising step; (3) a differential "
              "monitor: after restore_original the object and a freshly constructed Weaver on get_original() must "
              "agree bit for bit on get / get_reference / get_original after every step of a random continuation.")
LEVEL_NOTE = ("Programs respect each operation's documented precondition (tracked from the public state); sizes capped "
              "at 20000 samples; the global NumPy RNG is re-seeded identically before each noise step of the "
              "differential pair.")
TECHNIQUE = "class-invariant monitor (icontract.invariant on the real Weaver) + write sanitizer on caller arrays + differential restored-vs-fresh monitor over random API programs; thread-isolation monitor (concurrent vs sequential answers, first-use rounds with sys.monitoring yield injection)"
RULE = ("program = constructor variant (arrays / lists / int dtype / strided / read-only / from_2d_array / "
        "from_dataframe / x=None) + up to 6 random admissible mutators with read-only probes in between + "
        "restore_original + up to 5 further mutators applied to the restored object and to a fresh one. non-trivial: "
        "at least 2 mutators executed and the working series differs from the original before the restore; distinct "
        "by case index."
        " Also: from_csv, from_dataframe with default and named columns, programs on int32 / int16 storage with integer-typed normalise bounds, numpy.bool_ / 0 / 1 flags, read-only probes whose return values are compared with the current series."
        " Round-4 classes: trend callables that are pure functions of a number but not elementwise maps of an array (sum over terms, dot with the power vector, math.sin, branching) or that fold their local argument in place; operations in drawn call forms; counts as NumPy integer scalars."
        " Round-5 classes: a copy.deepcopy / pickle duplicate taken mid-program and continued in lock-step with the object; a 'threads' kind (programs replayed concurrently on separate objects)."
        " Round-6 classes: every processing method must return the object it was called on (asserted on every applied operation)."
        " Round-7 classes: rare interpolate(n = 66 000..90 000) steps, resampling to the same number of points."
        " Round-8 classes: getter results kept by the caller and handed to a second Weaver are guarded across all later operations; first use of the library from several threads at once with untried Weaver programs."
        " Round-9 classes: read-only views of a table the caller goes on editing are handed in, the table is edited, the stored original must not move.")
REQUIRED_MONITORS = ["c09:caller_edits_his_table", "c09:getter_results_kept", "threads:weaver", "threads:first_use:weaver_cold", "threads:first_use_yields_injected", "c09:duplicate", "weaver_invariant", "c09:caller_arrays", "c09:original_unchanged", "c09:restore_differential"]
ASSUMPTIONS = ["operations are generated with admissible arguments only; an exception from such an operation is reported",
               "indices-based truncation is only issued while working and reference series are the same samples"]
NSHARDS = 16


def plan(tier, seed):
    return _plan(tier, seed) + _jobs.plan(tier)


def _plan(tier, seed):
    n = 6000 if tier == "quick" else 450000
    return [{"kind": "program", "start": p * (n // NSHARDS), "count": n // NSHARDS} for p in range(NSHARDS)] + \
        [{"kind": "suite"}]


class Guard:
    """write sanitizer: fingerprints of caller-owned objects"""

    def __init__(self):
        self.items = []

    def add(self, name, obj):
        self.items.append((name, obj, self.fp(obj)))

    @staticmethod
    def fp(obj):
        if isinstance(obj, np.ndarray):
            return (fingerprint(obj), obj.shape, str(obj.dtype), obj.strides)
        if hasattr(obj, "to_numpy"):
            return fingerprint(obj.to_numpy())
        return fingerprint(list(obj))

    def check(self, ctx, cid, where, prog):
        ctx.monitor("c09:caller_arrays", len(self.items))
        for name, obj, fp0 in self.items:
            if self.fp(obj) != fp0:
                ctx.violation("caller_array_modified", cid, {"which": name, "after": where, "program": prog})
                return False
        return True


def construct(rng, x, y, guard):
    from traffic_weaver import Weaver
    t = int(rng.integers(0, 8))
    if t == 7:
        import os
        import tempfile
        fd, path = tempfile.mkstemp(prefix="twverif-c09-", suffix=".csv")
        with os.fdopen(fd, "w") as f:
            for a, b in zip(x, y):
                f.write("%r,%r\n" % (float(a), float(b)))
        try:
            wv = Weaver.from_csv(path)
        finally:
            os.remove(path)
        gx, gy = wv.get()
        if not (np.array_equal(gx, np.asarray(x, dtype=float)) and np.array_equal(gy, np.asarray(y, dtype=float))):
            raise AssertionError("from_csv did not reproduce the file: %r %r" % (gx[:3], x[:3]))
        return wv, "from_csv"
    if t <= 2:
        xin, xk = gen.as_container(rng, x)
        yin, yk = gen.as_container(rng, y)
        guard.add("x(%s)" % xk, xin)
        guard.add("y(%s)" % yk, yin)
        return Weaver(xin, yin), "Weaver(%s,%s)" % (xk, yk)
    if t == 3:
        xy = np.column_stack([x, y])
        if rng.integers(0, 2):
            xy.flags.writeable = False
        guard.add("xy", xy)
        return Weaver.from_2d_array(xy), "from_2d_array(writeable=%s)" % xy.flags.writeable
    if t == 4:
        import pandas as pd
        if rng.integers(0, 2):
            df = pd.DataFrame({0: np.array(x), 1: np.array(y)})          # documented defaults: columns 0 and 1
            guard.add("df[0]", df[0])
            guard.add("df[1]", df[1])
            wv = Weaver.from_dataframe(df)
        else:
            df = pd.DataFrame({"extra": np.zeros(len(x)), "t": np.array(x), "v": np.array(y)})
            guard.add("df.t", df["t"])
            guard.add("df.v", df["v"])
            wv = Weaver.from_dataframe(df, x_col="t", y_col="v")
        gx, gy = wv.get()
        if not (np.array_equal(gx, x) and np.array_equal(gy, y)):
            raise AssertionError("from_dataframe did not take the requested columns")
        return wv, "from_dataframe"
    if t == 5:
        yin, yk = gen.as_container(rng, y)
        guard.add("y(%s)" % yk, yin)
        return Weaver(None, yin), "Weaver(None,%s)" % yk
    xin = np.array(x)
    yin = np.array(y)
    xin.flags.writeable = False
    yin.flags.writeable = False
    guard.add("x(readonly)", xin)
    guard.add("y(readonly)", yin)
    return Weaver(xin, yin), "Weaver(readonly,readonly)"


def snap(wv):
    return [np.array(a).copy() if isinstance(a, np.ndarray) else copy.deepcopy(a)
            for pair in (wv.get(), wv.get_reference(), wv.get_original()) for a in pair]


def same_state(a, b):
    for u, v in zip(a, b):
        if type(u) is not type(v):
            return False
        if isinstance(u, np.ndarray):
            if u.shape != v.shape or u.dtype.newbyteorder("=") != v.dtype.newbyteorder("=") or not np.array_equal(u, v, equal_nan=True):
                return False
        elif u != v:
            return False
    return True


def step(ctx, cid, rng, wv, op, guard, prog, label):
    """apply one mutator with every per-step monitor; returns False when a violation was recorded"""
    orig_before = [np.array(a).copy() for a in wv.get_original()]
    if rng is not None and rng.integers(0, 4) == 0:
        # what a getter returned is the caller's from then on: kept, and handed to a second Weaver as its input - from
        # now on these are "arrays handed in by the caller", whatever the first object goes on to do (restore_original,
        # further processing)
        from traffic_weaver import Weaver as _Weaver
        which = ["get", "get_reference", "get_original"][int(rng.integers(0, 3))]
        hx, hy = getattr(wv, which)()
        if isinstance(hx, np.ndarray) and isinstance(hy, np.ndarray) and len(hx) == len(hy) and len(hx) >= 1:
            guard.add("%s()[0] kept before %s" % (which, label), hx)
            guard.add("%s()[1] kept before %s" % (which, label), hy)
            try:
                guard.keep = getattr(guard, "keep", []) + [_Weaver(hx, hy)]
            except Exception:
                pass
            ctx.monitor("c09:getter_results_kept")
    try:
        owned = W.apply(wv, op)
    except Exception as e:
        msg = str(e)
        clause = "read_only_write" if "read-only" in msg else "valid_operation_raised"
        ctx.exception(clause, cid, e, {"program": prog, "during": label})
        return False
    for i, o in enumerate(owned):
        guard.add("%s.arg%d" % (op["op"], i), o)
    if not guard.check(ctx, cid, label, prog):
        return False
    bad = weaver_inv.describe_problem(*wv.get())
    ctx.monitor("c09:state_after_step")
    if bad:
        ctx.violation("processed_series_malformed", cid, {"problem": bad, "after": label, "program": prog})
        return False
    ox, oy = wv.get_original()
    ctx.monitor("c09:original_unchanged")
    if op["op"] in ("normalize_x", "normalize_y"):
        i = 0 if op["op"] == "normalize_x" else 1
        lo, hi = op["args"]
        b = np.asarray(orig_before[i], dtype=float)
        want = (b - b.min()) / (b.max() - b.min()) * (hi - lo) + lo
        now = (ox, oy)[i]
        other_ok = np.array_equal((ox, oy)[1 - i], orig_before[1 - i])
        if not other_ok or np.shape(now) != want.shape or \
                not np.max(np.abs(np.asarray(now, dtype=float) - want)) <= 1e-9 * max(abs(lo), abs(hi), 1e-300):
            ctx.violation("original_not_renormalised_as_documented", cid, {"after": label, "program": prog})
            return False
    elif not (isinstance(ox, np.ndarray) and isinstance(oy, np.ndarray) and np.array_equal(ox, orig_before[0])
              and np.array_equal(oy, orig_before[1]) and ox.dtype == orig_before[0].dtype):
        ctx.violation("original_changed", cid, {"after": label, "program": prog, "before": orig_before,
                                                "now": [ox, oy]})
        return False
    return True


def run_case(ctx, kind_, idx):
    from traffic_weaver import Weaver
    rng = ctx.rng(kind_, idx)
    cid = ctx.case_id(kind_, idx)
    Slot.case = cid
    x, y, meta = R.gen_series(rng, 4, 40, ties_share=0.25)
    if rng.integers(0, 12) == 0:
        # integer time stamps (seconds of a day, hourly or irregular): a Weaver keeps the caller's integer dtype
        x = np.sort(rng.choice(np.arange(0, 86400, 60), size=len(x), replace=False)).astype(float)
        meta["xcls"] = "int_seconds"
    guard = Guard()
    prog = []
    ctx.judged()
    try:
        with fp_watch(ctx):
            narrow_int = rng.integers(0, 15) == 0
            if narrow_int:
                # a series kept in narrow integer storage (seconds of a day in int32, counters in int16), worked on with
                # integer-typed requests: nothing may be computed in the storage dtype
                xi = np.sort(rng.choice(np.arange(0, 86400, 60), size=len(x), replace=False)).astype(np.int32)
                yi = rng.integers(150, 320, len(x)).astype(np.int16)
                guard.add("x(int32)", xi)
                guard.add("y(int16)", yi)
                wv, how = Weaver(xi, yi), "Weaver(int32,int16)"
                x, y = xi.astype(float), yi.astype(float)
            elif rng.integers(0, 10) == 0:
                # read-only views of arrays the CALLER keeps editing (columns of a pandas 3 frame, a view with
                # flags.writeable = False of a table that is still being filled): the stored original is the data as it
                # was handed in, whatever the caller does to his own table afterwards
                xb, yb = np.array(x, dtype=float), np.array(y, dtype=float)
                xv, yv = xb.view(), yb.view()
                xv.flags.writeable = False
                yv.flags.writeable = False
                wv, how = Weaver(xv, yv), "Weaver(read-only views of the caller's table)"
                before_edit = [np.array(a).copy() for a in wv.get_original()]
                yb += 1.0
                xb[-1] += 0.5
                ctx.monitor("c09:caller_edits_his_table")
                ox_, oy_ = wv.get_original()
                if not (np.array_equal(ox_, before_edit[0]) and np.array_equal(oy_, before_edit[1])):
                    ctx.violation("original_changed", cid, {"after": "the caller edited the table whose read-only views he had handed in",
                                                            "program": [how]})
                    return
                # the working series aliases the caller's table by design (the constructor copies only the original), so
                # the caller has just edited it under the object's feet: the program does not go on with THIS object
                wv, how = Weaver(before_edit[0].copy(), before_edit[1].copy()), how + ", then a fresh Weaver on the data as handed in"
                x, y = before_edit[0].copy(), before_edit[1].copy()
            else:
                wv, how = construct(rng, x, y, guard)
            prog.append(how)
            ctx.count("ctor:%s" % how.split("(")[0])
            n1 = int(rng.integers(0, 7))
            executed = 0
            dup = None
            for _ in range(n1):
                after_recreate = prog and isinstance(prog[-1], dict) and prog[-1]["op"] == "recreate_from_average"
                op = W.gen_op(rng, wv, allow=["integral_match"]) if after_recreate and rng.integers(0, 2) else None
                if op is None and narrow_int and rng.integers(0, 2):
                    op = W.gen_op(rng, wv, allow=["normalize_x", "normalize_y", "truncate_by_index", "shift_x"])
                op = op or W.gen_op(rng, wv)
                if op is None:
                    continue
                prog.append(W.printable(op))
                ctx.count("op:%s" % op["op"])
                if not step(ctx, cid, rng, wv, op, guard, prog, "step %d %s" % (len(prog), op["op"])):
                    return
                executed += 1
                # ---- a duplicate of the live object (copy.deepcopy / pickle round trip) is the same object from then on
                if dup is not None:
                    try:
                        W.apply(dup, op, salt=1)
                    except Exception as e:
                        ctx.exception("duplicate_differs_from_the_object_it_was_copied_from", cid, e,
                                      {"at": "the duplicate raised where the object did not", "program": prog})
                        return
                    ctx.monitor("c09:duplicate")
                    if not same_state(snap(wv), snap(dup)):
                        ctx.violation("duplicate_differs_from_the_object_it_was_copied_from", cid,
                                      {"at": W.printable(op), "program": prog})
                        return
                elif rng.integers(0, 6) == 0:
                    import copy
                    import pickle
                    how_dup = ["copy.deepcopy", "pickle"][int(rng.integers(0, 2))]
                    dup = copy.deepcopy(wv) if how_dup == "copy.deepcopy" else pickle.loads(pickle.dumps(wv))
                    prog.append("duplicate taken by " + how_dup)
                    ctx.monitor("c09:duplicate")
                    if not same_state(snap(wv), snap(dup)):
                        ctx.violation("duplicate_differs_from_the_object_it_was_copied_from", cid,
                                      {"at": "immediately after " + how_dup, "program": prog})
                        return
                if rng.integers(0, 2):
                    before = snap(wv)
                    try:
                        p = W.run_probe(rng, wv)
                    except Exception as e:
                        ctx.exception("probe_raised", cid, e, {"program": prog})
                        return
                    ctx.monitor("c09:probes")
                    if not same_state(before, snap(wv)) or not guard.check(ctx, cid, "probe " + p, prog):
                        ctx.violation("read_only_probe_changed_state", cid, {"probe": p, "program": prog})
                        return
            differs = not (np.array_equal(wv.get()[0], wv.get_original()[0])
                           and np.array_equal(wv.get()[1], wv.get_original()[1]))
            # ---- restore_original: restored object vs freshly constructed one on get_original()
            wv.restore_original()
            prog.append("restore_original")
            ox, oy = wv.get_original()
            fresh = Weaver(np.array(ox).copy(), np.array(oy).copy())
            ctx.monitor("c09:restore_differential")
            if not same_state(snap(wv), snap(fresh)):
                ctx.violation("restored_differs_from_fresh", cid, {"at": "immediately after restore_original",
                                                                   "program": prog, "restored": snap(wv),
                                                                   "fresh": snap(fresh)})
                return
            n2 = int(rng.integers(1, 6))
            for _ in range(n2):
                op = W.gen_op(rng, wv)
                if op is None:
                    continue
                prog.append(W.printable(op))
                ctx.count("op:%s" % op["op"])
                if not step(ctx, cid, rng, wv, op, guard, prog, "continuation %s" % op["op"]):
                    return
                try:
                    W.apply(fresh, op)
                except Exception as e:
                    ctx.exception("restored_differs_from_fresh", cid, e,
                                  {"at": "fresh object raised where the restored one did not", "program": prog})
                    return
                ctx.monitor("c09:restore_differential")
                if not same_state(snap(wv), snap(fresh)):
                    ctx.violation("restored_differs_from_fresh", cid, {"at": W.printable(op), "program": prog})
                    return
                executed += 1
    except Exception as e:
        ctx.exception("harness_or_constructor_raised", cid, e, {"program": prog})
        return
    if executed >= 2 and differs:
        ctx.nontriv("c09", idx)
    if idx % 1500 == 8:
        ctx.sample({"x": x, "y": y, "program": prog})


def run(ctx, spec):
    if spec["kind"] in ("threads", "threads_cold"):      # concurrent independent requests vs their sequential answers
        return _jobs.run(ctx, spec, ["weaver"])
    if spec["kind"] == "suite":     # the repository's own tests with the Weaver state monitor attached
        from .. import suite
        suite.run_suite(ctx, ["weaver_invariant"])
        return
    Slot.ctx = ctx
    weaver_inv.install()
    for idx in range(spec["start"], spec["start"] + spec["count"]):
        run_case(ctx, spec["kind"], idx)


def replay(ctx, case):
    if case["kind"] in ("threads", "threads_cold"):
        return _jobs.run_case(ctx, ["weaver"], case["idx"], cold=case["kind"] == "threads_cold")
    Slot.ctx = ctx
    weaver_inv.install()
    run_case(ctx, case["kind"], case["idx"])
