"""Shared workload pieces for the recreate-from-average properties C02, C04, C05, C06, C07."""
import numpy as np

from .. import callform, gen
from ..models import rfa_model as RM

WINDOW = ["LinearFixedRFA", "LinearAdaptiveRFA", "ExpFixedRFA", "ExpAdaptiveRFA"]
ALL = WINDOW + ["PiecewiseConstantRFA", "CubicSplineRFA"]
K1_EXP_LIMIT = 0.132954


_USER_CLASSES = {}


def cls(name):
    """The strategy class of that name - or, for a deterministic share of the requests of a case, a USER class derived
    from it in the documented way (subclass whose constructor forwards its arguments): the strategies are an open
    family, `rfa_class` takes any class with that interface, and everything promised for a library strategy holds for
    a subclass that only adds a label.  The variant depends on the current case only, so a replay sees the same."""
    from traffic_weaver import rfa
    from .. import core
    base = getattr(rfa, name)
    core.CASE_CALLS["cls"] = core.CASE_CALLS.get("cls", 0) + 1
    v = (core.CASE_SALT // 7 + core.CASE_CALLS["cls"]) % 6
    if v not in (3, 5):
        return base
    key = (name, v)
    if key not in _USER_CLASSES:
        if v == 3:
            def __init__(self, x, y, n, *args, label="", **kwargs):      # adds a keyword of its own, forwards the rest
                base.__init__(self, x, y, n, *args, **kwargs)
                self.label = label
        else:
            def __init__(self, *args, **kwargs):
                base.__init__(self, *args, **kwargs)
        _USER_CLASSES[key] = type("User" + name, (base,), {"__init__": __init__, "__module__": __name__})
    return _USER_CLASSES[key]


def gen_params(rng, kind, n, smooth_free=True, exp_hi=4.0):
    """strategy keyword arguments in the documented ranges, end points included; returns (kwargs, a_total)"""
    kw = {}
    if kind not in WINDOW:
        return kw, None
    t = int(rng.integers(0, 5))
    if t == 0:
        a_req = int(rng.integers(0, n + 1))
        kw["a"] = a_req
        a = max(2, a_req)
        if rng.integers(0, 3) == 0:
            kw["alpha"] = float(rng.choice([0.3, 0.77, 1.0]))      # documented: alpha is only used when a is not given
    else:
        if t == 1:
            alpha = 1.0
        elif t == 2:
            alpha = float(rng.choice([0.5, 0.25]))
            if (alpha * n) != int(alpha * n):
                alpha = (int(alpha * n) + 0.5) / n
        else:
            a_t = int(rng.integers(1, n + 1))
            alpha = min(1.0, (a_t + 0.5) / n) if a_t < n else 1.0
        kw["alpha"] = alpha
        a = RM.window_total(n, alpha=alpha)
    if kind.startswith("Exp"):
        bt = int(rng.integers(0, 4))
        kw["beta"] = [0.0, 1.0, 0.5, float(rng.uniform(0, 1))][bt]
        et = int(rng.integers(0, 6))
        kw["exp"] = [2.0, 1.0, float(rng.uniform(0.02, 0.13)), float(rng.uniform(0.14, 1.0)),
                     float(rng.uniform(1.0, exp_hi)), exp_hi][et]
    if "Adaptive" in kind and smooth_free and rng.integers(0, 2):
        kw["adaptive_smooth"] = float(rng.choice([0.3, 0.5, 2.0, 3.0, float(rng.uniform(0.05, 3.0))]))
    return kw, a


LONG_SHARE = 1.0 / 500


def gen_series(rng, m_lo=2, m_hi=60, ties_share=0.4, real_valued=False, long_share=0.0, force_m=None):
    m = int(rng.integers(m_lo, m_hi + 1))
    if force_m:
        m, long_share = int(force_m), 0.0
    if long_share and rng.uniform() < long_share:
        m = int(rng.integers(1001, 1801))       # a day of minute averages: sizes at which block-wise code paths start
    x, xc = gen.gen_x(rng, m)
    if real_valued:
        ycls = ["gauss", "signchange", "positive", "large", "tiny"][int(rng.integers(0, 5))]
    elif rng.uniform() < ties_share:
        ycls = ["ties", "plateaus", "constant"][int(rng.choice([0, 0, 0, 1, 1, 2]))]
    else:
        ycls = None
    y, yc = gen.gen_y(rng, m, ycls)
    return x, y, {"m": m, "xcls": xc, "ycls": yc}


def gen_n(rng):
    return int(rng.choice([2, 3, 4, 5, 8, 10, 16, 64, int(rng.integers(2, 65))]))


def build(rng, kind, x, y, n, kw, klass=None):
    """construct a strategy object in a randomly chosen documented call form (positional prefix of the optional
    parameters in the documented order, mandatory parameters by name, or the plain x, y, n, **kw)"""
    return callform.call(rng, klass or cls(kind), kind, [x, y, n], kw)


def run(kind, x, y, n, kw, rng=None):
    """construct the strategy object and ask it; when an rng is given, in a quarter of the cases another object of the
    SAME class (other data, other factor, other parameters) is constructed - and sometimes used - in between: objects
    must not share state through their class"""
    if rng is not None and rng.integers(0, 6) == 0:
        # an earlier, equal request whose answer the caller has meanwhile edited in place (unit conversion, clipping):
        # answers are the caller's own arrays, the next equal request starts from the averages again
        first = cls(kind)(np.array(x, copy=True), np.array(y, copy=True), n, **kw).rfa()
        callform.scribble(first, [])
    if rng is not None and rng.integers(0, 3) == 0:
        x = gen.as_container(rng, x)[0]         # the abscissae in any of the containers (the constructor converts on entry)
    if rng is not None and rng.integers(0, 4) == 0:
        # a parameter sweep on ONE series: the same averages were asked before with other strategy parameters (whatever
        # the library remembers about a series must be keyed by everything the answer depends on)
        kw_prev, _a = gen_params(rng, kind, n)
        if kw_prev != kw:
            cls(kind)(np.array(x, copy=True), np.array(y, copy=True), n, **kw_prev).rfa()
    if rng is not None and rng.integers(0, 5) == 0:
        # the same request through the Weaver: recreate_from_average(n, rfa_class, **parameters) builds the strategy
        # (library class or a user class derived from it) and returns its series
        from traffic_weaver import Weaver
        wv = Weaver(x, y)
        ret = wv.recreate_from_average(n, rfa_class=cls(kind), **kw)
        if ret is not wv:
            raise AssertionError("recreate_from_average did not return the Weaver")
        return wv.get()
    obj = build(rng, kind, x, y, n, kw)
    if rng is not None and rng.integers(0, 4) == 0:
        n2 = gen_n(rng)
        kw2, _a = gen_params(rng, kind, n2)
        x2, y2, _m = gen_series(rng, 2, 12)
        other = cls(kind)(x2, y2, n2, **kw2)
        if rng.integers(0, 2):
            other.rfa()
    return obj.rfa()


def narrow_series(rng, x, y, meta):
    """sometimes hand the averages over as float32 / float16 (e.g. a pandas float32 column); the series judged is the
    float64 image of what the narrow array holds; x keeps strictly increasing or the case stays float64"""
    yn, yimg, name = gen.narrow(rng, y)
    if name != "float64" and meta.get("ycls") in ("near_ties", "pico", "tiny", "large"):
        return x, y, y
    meta["y_dtype"] = name
    return x, yn, yimg


def brief(kind, x, y, n, kw, meta=None):
    d = {"strategy": kind, "n": n, "kwargs": kw}
    if meta:
        d.update(meta)
    if len(x) <= 12:
        d["x"] = x
        d["y"] = y
    return d


def well_formed(xs, ys, m, n):
    """the structural part of C04; returns None when fine, else a description"""
    for name, a in (("xs", xs), ("ys", ys)):
        if not isinstance(a, np.ndarray):
            return "%s is %s, not numpy.ndarray" % (name, type(a).__name__)
        if a.ndim != 1:
            return "%s has ndim %d" % (name, a.ndim)
        if len(a) != (m - 1) * n + 1:
            return "%s has length %d, expected %d" % (name, len(a), (m - 1) * n + 1)
        if a.dtype.kind != "f":
            return "%s has dtype %s" % (name, a.dtype)
        if not np.all(np.isfinite(a)):
            return "%s has non-finite values" % name
    return None
