"""Random admissible operations over the whole public Weaver API (shared by C09 and C20).

An operation is a plain dict {"op", "args", "kw"} that can be printed, replayed and applied to several
objects identically (callables are described by parameters and rebuilt on application).
"""
import math

import numpy as np

from . import _rfa as R
from .. import callform, gen

MUTATORS = ["append_one_sample", "interpolate", "recreate_from_average", "integral_match", "noise", "repeat", "trend",
            "smooth", "scale_x", "scale_y", "shift_x", "shift_y", "normalize_x", "normalize_y", "truncate_by_value",
            "truncate_by_index", "restore_original"]
PROBES = ["get", "get_original", "get_reference", "slice_by_index", "slice_by_value", "to_function", "to_2d_array",
          "len"]
MAX_LEN = 20000
SPLINE_MAX = 3000


TREND_FAMILIES = ["poly", "sin", "const", "npscalar", "poly_sum", "poly_dot", "daily_inplace", "math_sin", "step",
                  "late_ramp", "clipped", "ufunc", "poly1d", "np_polynomial", "zero_d_answer"]


def trend_fun(desc):
    """user callables (x) -> y_shift, the way callers write them.  All are pure functions of a NUMBER; several are
    not elementwise maps of an array (they reduce over their own terms, branch on the argument, use math.*) and one
    updates its local argument in place - harmless for a number, destructive for a live array handed over instead."""
    kind, c = desc["family"], desc["coef"]
    if kind == "poly":
        return lambda t: c[0] + c[1] * t + c[2] * t * t + c[3] * t ** 3
    if kind == "sin":
        return lambda t: c[0] * np.sin(c[1] * t + c[2])
    if kind == "const":
        return lambda t: c[0]
    if kind == "npscalar":
        return lambda t: np.float64(c[0] * t + c[1])
    if kind == "poly_sum":          # polynomial written as a sum over its terms
        return lambda t: np.sum([ck * t ** k for k, ck in enumerate(c)])
    if kind == "poly_dot":          # ... or as a dot product with the vector of powers
        coefs, powers = np.array(c, dtype=float), np.arange(len(c), dtype=float)
        return lambda t: np.dot(coefs, t ** powers)
    if kind == "daily_inplace":     # periodic pattern: fold the argument into one period first
        def daily(t):
            t %= c[1]
            return c[0] * np.sin(2.0 * np.pi * t / c[1] + c[2])
        return daily
    if kind == "math_sin":
        return lambda t: c[0] * math.sin(c[1] * t + c[2])
    if kind == "step":
        return lambda t: c[0] if t < c[1] else c[2]
    if kind == "ufunc":             # a bare NumPy ufunc object handed over as the trend
        return {"sin": np.sin, "cos": np.cos, "tanh": np.tanh, "log1p_abs": np.fabs, "arctan": np.arctan,
                "expm1_neg": np.negative}[c[0]]
    if kind == "poly1d":            # numpy.poly1d objects: callable, with __len__ = degree (a constant polynomial is FALSY)
        return np.poly1d(list(c))
    if kind == "zero_d_answer":     # callables that answer a number with a 0-d array: SciPy interpolants, np.vectorize, np.where
        how = desc.get("how", "asarray")
        if how == "cubic_spline":
            from scipy.interpolate import CubicSpline
            return CubicSpline(desc["knots"], c)
        if how == "vectorize":
            return np.vectorize(lambda t: c[0] * t + c[1])
        if how == "where":
            return lambda t: np.where(t < c[2], c[0] * t + c[1], c[1])
        return lambda t: np.asarray(c[0] * t + c[1])
    if kind == "np_polynomial":     # numpy.polynomial objects (lowest power first, argument mapped from domain to window)
        klass = np.polynomial.Chebyshev if desc.get("basis") == "chebyshev" else np.polynomial.Polynomial
        return klass(list(c), domain=desc["domain"]) if desc.get("domain") else klass(list(c))
    if kind == "late_ramp":         # "growth starts later": the int literal 0 first, fractions afterwards
        return lambda t: 0 if t < c[1] else c[0] * (t - c[1])
    if kind == "clipped":           # max(0, ...) returns the int 0 or a float
        return lambda t: max(0, c[0] * (t - c[1]))
    raise KeyError(kind)


def gen_trend(rng, x, y, normalized, families=None):
    """a trend description {"family", "coef"} scaled to the series (shared by C09, C14, C20)"""
    fams = families or TREND_FAMILIES
    fam = fams[int(rng.integers(0, len(fams)))]
    mag = float(np.max(np.abs(y))) or 1.0
    span = float(x[-1] - x[0]) or 1.0
    c = [float(v) for v in rng.normal(0, 1, 4)]
    s = 1.0 if normalized else max(abs(float(x[0])), abs(float(x[-1])), 1.0)
    if fam in ("poly", "poly_sum", "poly_dot"):
        c = [mag * c[0], mag * c[1] / s, mag * c[2] / s ** 2, mag * c[3] / s ** 3]
        if fam == "poly_dot" and rng.integers(0, 2):
            # as many terms as the series has samples (<= 6): an array argument of that length would not even fail
            k = min(len(x), 6)
            c = [mag * float(v) / s ** j for j, v in enumerate(rng.normal(0, 1, k))]
    elif fam in ("sin", "math_sin"):
        c = [mag * c[0], (c[1] * 6.0) if normalized else c[1] * 6.0 / span, c[2]]
    elif fam == "const":
        c = [mag * c[0]]
    elif fam == "ufunc":
        c = [["sin", "cos", "tanh", "log1p_abs", "arctan", "expm1_neg"][int(rng.integers(0, 6))]]
    elif fam == "poly1d":
        deg = int(rng.integers(0, 4))          # highest power first, as numpy.poly1d takes them; degree 0 = constant trend
        c = [mag * float(v) / s ** (deg - j) for j, v in enumerate(rng.normal(0, 1, deg + 1))]
        if deg == 0 and rng.integers(0, 3) == 0:
            c = [0.0]                          # the zero trend
    elif fam == "zero_d_answer":
        how = ["asarray", "cubic_spline", "vectorize", "where"][int(rng.integers(0, 4))]
        lo, hi = (float(x[0]) / span, float(x[-1]) / span) if normalized else (float(x[0]), float(x[-1]))
        if how == "cubic_spline":
            knots = [lo - 0.1 * (hi - lo) - 1e-9, lo + 0.3 * (hi - lo), lo + 0.6 * (hi - lo), hi + 0.1 * (hi - lo) + 1e-9]
            if not all(b > a for a, b in zip(knots, knots[1:])):
                how = "asarray"
            else:
                return {"family": fam, "how": how, "knots": knots, "coef": [mag * float(v) for v in rng.normal(0, 1, 4)]}
        return {"family": fam, "how": how, "coef": [mag * c[0] / s, mag * c[1], lo + 0.5 * (hi - lo)]}
    elif fam == "np_polynomial":
        deg = int(rng.integers(0, 4))
        lo, hi = (float(x[0]) / span, float(x[-1]) / span) if normalized else (float(x[0]), float(x[-1]))
        d = {"family": fam, "basis": "chebyshev" if rng.integers(0, 3) == 0 else "power"}
        if rng.integers(0, 2) and hi > lo:
            # as returned by Polynomial.fit: coefficients refer to the window [-1, 1], the data range is the domain
            d["domain"] = [lo, hi]
            d["coef"] = [mag * float(v) for v in rng.normal(0, 1, deg + 1)]
        else:
            d["coef"] = [mag * float(v) / s ** j for j, v in enumerate(rng.normal(0, 1, deg + 1))]
        return d
    elif fam == "daily_inplace":
        c = [mag * c[0], (1.0 if normalized else span) / float(rng.choice([1.0, 2.5, 7.0])), c[2]]
    elif fam == "step":
        lo, hi = (0.0, 1.0) if normalized else (float(x[0]), float(x[-1]))
        c = [mag * c[0], lo + (hi - lo) * float(rng.uniform(0.1, 0.9)), mag * c[2]]
    elif fam in ("late_ramp", "clipped"):
        lo, hi = (float(x[0]) / span, float(x[-1]) / span) if normalized else (float(x[0]), float(x[-1]))
        c = [abs(mag * c[0]) / max(hi - lo, 1e-300), lo + (hi - lo) * float(rng.uniform(0.1, 0.7))]
    else:
        c = [mag * c[0] / s, mag * c[1]]
    return {"family": fam, "coef": c}


def match_admissible(x, rx):
    """C01's precondition for the default (closest) fixed points, computed with NumPy (admissibility only)."""
    x = np.asarray(x, dtype=float)
    rx = np.asarray(rx, dtype=float)
    if len(rx) < 2 or len(x) < 3:
        return False
    if np.any(np.diff(rx) <= 0) or np.any(np.diff(x) <= 0):
        return False
    j = np.searchsorted(x, rx)
    j = np.clip(j, 1, len(x) - 1)
    lo, hi = x[j - 1], x[j]
    idx = np.where(rx - lo <= hi - rx, j - 1, j)
    idx = np.where(rx <= x[0], 0, idx)
    idx = np.where(rx >= x[-1], len(x) - 1, idx)
    if np.any(np.diff(idx) < 2):
        return False
    # keep away from exact ties between two samples, where the chosen fixed point is a knife edge
    d = np.abs(np.abs(rx - lo) - np.abs(hi - rx))
    inside = (rx > x[0]) & (rx < x[-1]) & (rx != lo) & (rx != hi)
    if np.any(inside & (d <= 1e-9 * np.abs(hi - lo))):
        return False
    return True


def gen_op(rng, wv, allow=None, new_x_container=True):
    """Draw one admissible mutator for the current state of `wv`; returns an op dict or None.  The op carries a
    "form" seed: the documented call form (optional parameters positionally in documented order, mandatory ones by
    name, or plain) is drawn from it on application, independently for every object the op is applied to."""
    op = _gen_op(rng, wv, allow, new_x_container)
    if op is not None:
        op["form"] = int(rng.integers(0, 2 ** 31 - 1))
        # counts the way callers have them at hand: Python ints or NumPy integer scalars, signed or unsigned
        if op["op"] in ("repeat", "recreate_from_average"):
            op["args"][0] = gen.count_arg(rng, op["args"][0], p=0.25)[0]
        elif op["op"] == "interpolate" and "n" in op["kw"]:
            op["kw"]["n"] = gen.count_arg(rng, op["kw"]["n"], p=0.25)[0]
    return op


def _gen_op(rng, wv, allow=None, new_x_container=True):
    x, y = wv.get()
    rx, ry = wv.get_reference()
    n, nr = len(x), len(rx)
    names = allow or MUTATORS
    for _ in range(12):
        op = names[int(rng.integers(0, len(names)))]
        if op == "append_one_sample":
            if n >= 2 and nr >= 2 and n < MAX_LEN:
                flag = bool(rng.integers(0, 2))
                return {"op": op, "args": [], "kw": {"make_periodic": [flag, np.bool_(flag), int(flag)][int(rng.integers(0, 3))]},
                        "omit_default": bool(rng.integers(0, 2))}
        elif op == "interpolate":
            if 4 <= n <= SPLINE_MAX:
                method = ["linear", "constant", "cubic", "spline"][int(rng.integers(0, 4))]
                if rng.integers(0, 2):
                    k = int(rng.integers(4, min(2 * n + 3, 600)))
                    if rng.integers(0, 4) == 0 and n >= 4:
                        k = n            # resampled onto as many points as there were: same length, another grid
                    elif rng.integers(0, 150) == 0 and method != "spline":
                        k = int(rng.integers(66000, 90002))      # hourly averages expanded to one point per second
                    return {"op": op, "args": [], "kw": {"n": k, "method": method}}
                k = int(rng.integers(4, min(2 * n + 3, 600)))
                inner = np.sort(rng.uniform(float(x[0]), float(x[-1]), k - 2))
                new_x = np.unique(np.concatenate([[x[0]], inner, [x[-1]]]).astype(float))
                if len(new_x) < 4 or new_x[0] != x[0] or new_x[-1] != x[-1]:
                    continue
                cont = ["array", "list", "readonly"][int(rng.integers(0, 3))] if new_x_container else "array"
                return {"op": op, "args": [], "kw": {"new_x": new_x, "method": method}, "new_x_container": cont}
        elif op == "recreate_from_average":
            if n >= 2:
                strat = R.ALL[int(rng.integers(0, 6))]
                k = int(rng.choice([2, 3, 4, 5, 8, 10]))
                if (n - 1) * k + 1 > MAX_LEN:
                    continue
                kw, _a = R.gen_params(rng, strat, k)
                return {"op": op, "args": [k], "kw": dict(kw), "strategy": strat}
        elif op == "integral_match":
            if n <= MAX_LEN and match_admissible(x, rx):
                kw = {"target_function_integral_method": ["trapezoid", "rectangle"][int(rng.integers(0, 2))],
                      "reference_function_integral_method": ["rectangle", "trapezoid"][int(rng.integers(0, 2))]}
                if rng.integers(0, 3) == 0:
                    kw["alpha"] = float(rng.choice([0.5, 2.0, 3.0]))
                return {"op": op, "args": [], "kw": kw}
        elif op == "noise":
            t = int(rng.integers(0, 4))
            seed = int(rng.integers(0, 2 ** 31 - 1))
            if t == 0:
                return {"op": op, "args": [float(rng.choice([10.0, 20.0, 40.0]))], "kw": {}, "np_seed": seed}
            if t == 1:
                return {"op": op, "args": [float(rng.uniform(2, 100))], "kw": {"snr_in_db": False}, "np_seed": seed}
            if t == 2:
                return {"op": op, "args": [None], "kw": {"std": float(rng.uniform(0.01, 2))}, "np_seed": seed}
            snr = rng.uniform(5, 40, n)
            return {"op": op, "args": [snr], "kw": {}, "np_seed": seed, "snr_container":
                    ["array", "list", "readonly"][int(rng.integers(0, 3))]}
        elif op == "repeat":
            r = int(rng.integers(1, 4))
            if n >= 2 and nr >= 2 and n * r <= MAX_LEN and nr * r <= MAX_LEN:
                return {"op": op, "args": [r], "kw": {}}
        elif op == "trend":
            normalized = bool(rng.integers(0, 2))
            if normalized and n < 2:
                continue
            return {"op": op, "args": [], "kw": {"normalized": normalized}, "trend": gen_trend(rng, x, y, normalized)}
        elif op == "smooth":
            if 5 <= n <= SPLINE_MAX:
                return {"op": op, "args": [float(rng.choice([0.0, 0.0, 1e-3, 0.1, 1.0]))], "kw": {}}
        elif op == "scale_x":
            return {"op": op, "args": [float(rng.choice([2.0, 0.5, 60.0, float(rng.lognormal(0, 1))]))], "kw": {}}
        elif op == "scale_y":
            return {"op": op, "args": [float(rng.choice([2.0, -1.0, 0.25, 3]))], "kw": {}}
        elif op in ("shift_x", "shift_y"):
            v = float(rng.normal(0, 10)) if rng.integers(0, 3) else int(rng.integers(-5, 6))
            return {"op": op, "args": [v], "kw": {}}
        elif op == "normalize_x":
            if n >= 2 and nr >= 2:
                if rng.integers(0, 4) == 0:      # integer-typed bounds as in the documentation's normalize_x(0, 10)
                    return {"op": op, "args": [0, int(rng.choice([7, 10 ** 6, 86_400_000]))], "kw": {}}
                lo = float(rng.choice([0.0, -1.0, 5.0]))
                return {"op": op, "args": [lo, lo + float(rng.choice([1.0, 10.0, 24.0]))], "kw": {}}
        elif op == "normalize_y":
            yo = wv.get_original()[1]
            if all(len(a) >= 2 and float(np.min(a)) != float(np.max(a)) for a in (y, ry, yo)):
                if rng.integers(0, 4) == 0:      # integer-typed bounds (percent, per mille)
                    return {"op": op, "args": [0, int(rng.choice([100, 1000, 10 ** 6]))], "kw": {}}
                lo = float(rng.choice([0.0, -1.0, 5.0]))
                return {"op": op, "args": [lo, lo + float(rng.choice([1.0, 10.0]))], "kw": {}}
        elif op == "truncate_by_value":
            # bounds strictly inside the common range, wide enough to keep >= 2 samples of both series
            if n < 3 or nr < 3:
                continue
            lo, hi = max(float(x[0]), float(rx[0])), min(float(x[-1]), float(rx[-1]))
            if hi > lo:
                a, b = sorted(rng.uniform(0.0, 1.0, 2))
                if b - a < 0.2:
                    continue
                t = int(rng.integers(0, 4))
                ba = {"bounds_as_arrays": "0d" if rng.integers(0, 2) else "1el"} if rng.integers(0, 5) == 0 else {}
                if t == 0:
                    return dict({"op": op, "args": [float(a), float(b)],
                                 "kw": {"x_left_as_ratio": True, "x_right_as_ratio": True}}, **ba)
                if t == 1 and float(x[0]) == float(rx[0]) and float(x[-1]) == float(rx[-1]):
                    # one bound as a ratio, the other as a value (admissible while both series span the same range)
                    if rng.integers(0, 2):
                        return dict({"op": op, "args": [float(a), lo + b * (hi - lo)], "kw": {"x_left_as_ratio": True}}, **ba)
                    return dict({"op": op, "args": [lo + a * (hi - lo), float(b)], "kw": {"x_right_as_ratio": True}}, **ba)
                return dict({"op": op, "args": [lo + a * (hi - lo), lo + b * (hi - lo)], "kw": {}}, **ba)
        elif op == "truncate_by_index":
            # indices are only meaningful while working and reference series are the same samples
            if n == nr and n >= 3 and np.array_equal(x, rx):
                start = int(rng.integers(0, n - 2))
                stop = None if rng.integers(0, 3) == 0 else int(rng.integers(start + 2, n + 1))
                return {"op": op, "args": [start, stop], "kw": {}}
        elif op == "restore_original":
            return {"op": op, "args": [], "kw": {}}
    return None


def _container(kind, a):
    a = np.array(a, dtype=float)
    if kind == "list":
        return [float(v) for v in a]
    if kind == "readonly":
        a.flags.writeable = False
    return a


class ChainBroken(AssertionError):
    pass


def materialise(op):
    """Build the actual call (fresh argument objects, so that two objects never share a caller array)."""
    name = op["op"]
    args = list(op["args"])
    kw = dict(op["kw"])
    owned = []          # caller-owned arrays handed to the code (for the write sanitizer)
    if name == "interpolate" and "new_x" in kw:
        kw["new_x"] = _container(op.get("new_x_container", "array"), kw["new_x"])
        owned.append(kw["new_x"])
    if name == "noise" and isinstance(args[0], np.ndarray):
        args[0] = _container(op.get("snr_container", "array"), args[0])
        owned.append(args[0])
    if name == "truncate_by_value" and op.get("bounds_as_arrays"):
        # bounds computed with NumPy arrive as 0-d / 1-element arrays: mutable objects the call must leave alone (and
        # which it applies twice - to the working series and to the reference)
        wrap = (lambda v: np.asarray(float(v))) if op["bounds_as_arrays"] == "0d" else (lambda v: np.array([float(v)]))
        args = [wrap(v) for v in args]
        owned += args
    if name == "recreate_from_average":
        kw["rfa_class"] = R.cls(op["strategy"])
    if name == "trend":
        args = [trend_fun(op["trend"])]
    return name, args, kw, owned


def apply(wv, op, salt=0):
    name, args, kw, owned = materialise(op)
    if name == "append_one_sample" and kw.get("make_periodic") is False and op.get("omit_default"):
        kw = {}                          # documented default: make_periodic=False
    if "np_seed" in op:
        np.random.seed(op["np_seed"])
    form_rng = np.random.default_rng([op["form"], salt]) if "form" in op else None
    ret = callform.call(form_rng, getattr(wv, name), "Weaver." + name, args, kw)
    if ret is not wv:
        # every processing method is documented "Returns: self" - that is what makes wv.a().b() act on wv
        raise ChainBroken("Weaver.%s returned %s instead of the object it was called on" % (name, type(ret).__name__))
    return owned


def printable(op):
    d = {"op": op["op"], "args": [a if not isinstance(a, np.ndarray) else "<array %d>" % len(a) for a in op["args"]],
         "kw": {k: (v if not isinstance(v, np.ndarray) else "<array %d>" % len(v)) for k, v in op["kw"].items()}}
    for k in ("strategy", "trend", "np_seed", "new_x_container", "snr_container", "bounds_as_arrays"):
        if k in op:
            d[k] = op[k]
    return d


def run_probe(rng, wv):
    """a read-only public call; returns its name"""
    x, y = wv.get()
    n = len(x)
    p = PROBES[int(rng.integers(0, len(PROBES)))]
    def expect(cond, what):
        if not cond:
            raise AssertionError("read-only probe returned something else than the current series: " + what)
    if p == "get":
        expect(wv.get()[0] is x and wv.get()[1] is y, "get")
    elif p == "get_original":
        ox, oy = wv.get_original()
        expect(len(ox) == len(oy), "get_original")
    elif p == "get_reference":
        rx, ry = wv.get_reference()
        expect(len(rx) == len(ry), "get_reference")
    elif p == "slice_by_index":
        a = int(rng.integers(0, n))
        b, st = int(rng.integers(a, n + 1)), int(rng.integers(1, 4))
        sx, sy = wv.slice_by_index(a, b, st)
        expect(np.array_equal(sx, x[a:b:st]) and np.array_equal(sy, y[a:b:st]), "slice_by_index")
    elif p == "slice_by_value":
        a = int(rng.integers(0, n))
        b = int(rng.integers(a, n))
        sx, sy = wv.slice_by_value(x[a], x[b])
        expect(np.array_equal(sx, x[a:b + 1]) and np.array_equal(sy, y[a:b + 1]), "slice_by_value")
    elif p == "to_function":
        if 4 <= n <= SPLINE_MAX:
            f = wv.to_function()
            f(float(x[0]))
        else:
            p = "len"
            expect(len(wv) == n, "len")
    elif p == "to_2d_array":
        xy = wv.to_2d_array()
        expect(isinstance(xy, np.ndarray) and xy.shape == (n, 2) and np.array_equal(xy[:, 0], np.asarray(x, dtype=float))
               and np.array_equal(xy[:, 1], np.asarray(y, dtype=float)), "to_2d_array")
    else:
        expect(len(wv) == n, "len")
    return p


DOMAIN_OPS = ["append_one_sample", "repeat", "scale_x", "scale_y", "shift_x", "shift_y", "normalize_x", "normalize_y",
              "truncate_by_value", "truncate_by_index"]


def random_history(rng, wv, lo=0, hi=4, allow=None, max_len=400):
    """apply lo..hi random admissible operations; returns their printable descriptions"""
    prog = []
    for _ in range(int(rng.integers(lo, hi + 1))):
        op = gen_op(rng, wv, allow=allow)
        if op is None:
            continue
        if op["op"] == "repeat" and len(wv.get()[0]) * int(op["args"][0]) > max_len:
            continue
        if op["op"] == "recreate_from_average" and (len(wv.get()[0]) - 1) * int(op["args"][0]) + 1 > max_len:
            continue
        apply(wv, op)
        prog.append(printable(op))
    return prog
