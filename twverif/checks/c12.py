"""C12 - repeat is a periodic extension with the original spacing."""
import numpy as np

from . import _rfa as R
from .. import callform, gen, tol
from ..core import fp_watch

PROPERTY = "C12"
LEVEL = "exploration"
LEVEL_TEXT = ("Post-condition monitor on process.repeat / Weaver.repeat: length r*len, values = exact tiling, first copy "
              "bit-identical to the input, strictly increasing abscissae, every copy reproduces the original gaps, "
              "every junction gap equals the series' last step, repeat(1) identity, repeat(a) then repeat(b) equals "
              "repeat(a*b), the Weaver's reference repeated alike. Sampled over non-uniform / integer / list inputs.")
LEVEL_NOTE = "Gaps and composition judged at 1e-9 relative to the span (conditioning-aware); tiling and first copy bit for bit."
TECHNIQUE = "runtime post-condition monitor on repeat (tiling, spacing, junction, composition) under generated workloads"
RULE = ("case = series of 2..40 points (non-uniform with last step != first step in most cases, integer dtype, lists) x "
        "r in 1..12, or a factor pair (a, b) with a*b <= 24, through the function or the Weaver. non-trivial: r >= 2 "
        "(or a*b >= 2) on a series whose first and last steps differ; distinct by case index."
        " Also: Weaver.repeat after random domain histories, pandas Series with non-positional index, almost-uniform and nano-scale abscissae."
        " Round-4 classes: the count as NumPy integer scalar of any width (signed / unsigned), named arguments, series of 1001..1800 samples."
        " Round-6 classes: boolean values (array / list of bool) and lists with None for gaps."
        " Round-7 classes: deprecation-class warnings raised from the library's own files are violations (all checks)."
        " Round-8 classes: see the interpreter dimension (python -O shards) of every check."
        " Round-10 classes: an earlier repeat request with the same count on a sibling grid (same length, first sample, last two samples and sum of abscissae).")
REQUIRED_MONITORS = ["c12:repeat", "c12:composition", "c12:weaver"]
ASSUMPTIONS = ["series of >= 2 points with strictly increasing abscissae"]
NSHARDS = 16


def plan(tier, seed):
    n = 16000 if tier == "quick" else 1000000
    return [{"kind": "random", "start": p * (n // NSHARDS), "count": n // NSHARDS} for p in range(NSHARDS)] + \
        [{"kind": "huge", "start": 3 * p, "count": 3} for p in range(2 if tier == "quick" else 8)]


def judge_repeat(ctx, cid, x, y, r, gx, gy, info, what="repeat"):
    n = len(x)
    xf = np.asarray(x, dtype=float)
    yf = np.asarray(y, dtype=float)
    if not (isinstance(gx, np.ndarray) and isinstance(gy, np.ndarray) and gx.ndim == 1 and gy.ndim == 1):
        ctx.violation(what + ":not_arrays", cid, {"case": info})
        return False
    if len(gx) != r * n or len(gy) != r * n:
        ctx.violation(what + ":length", cid, {"got": [len(gx), len(gy)], "want": r * n, "case": info})
        return False
    if not np.array_equal(gy, np.tile(yf, r), equal_nan=True):
        ctx.violation(what + ":values_not_tiled", cid, {"got": gy, "case": info})
        return False
    if not np.array_equal(gx[:n], xf):
        ctx.violation(what + ":first_copy_changed", cid, {"got": gx[:n], "want": xf, "case": info})
        return False
    if not np.all(np.diff(gx) > 0):
        ctx.violation(what + ":not_increasing", cid, {"got": gx, "case": info})
        return False
    span = float(xf[-1] - xf[0])
    last = float(xf[-1] - xf[-2])
    rel = 1e-9 + 64 * tol.EPS * float(np.max(np.abs(gx))) / max(float(np.min(np.diff(xf))), 1e-300)
    gaps = np.diff(xf)
    for c in range(r):
        seg = gx[c * n:(c + 1) * n]
        if not np.max(np.abs(np.diff(seg) - gaps)) <= rel * span:
            ctx.violation(what + ":spacing_pattern_changed", cid, {"copy": c, "got_gaps": np.diff(seg), "want": gaps,
                                                                  "case": info})
            return False
        if c > 0:
            j = float(gx[c * n] - gx[c * n - 1])
            if not abs(j - last) <= rel * span:
                ctx.violation(what + ":junction_step", cid, {"copy": c, "junction_gap": j, "last_step": last,
                                                             "first_step": float(xf[1] - xf[0]), "case": info})
                return False
    return True


def run_case(ctx, kind_, idx):
    from traffic_weaver import Weaver
    from traffic_weaver.process import repeat
    rng = ctx.rng(kind_, idx)
    cid = ctx.case_id(kind_, idx)
    x, y, meta = R.gen_series(rng, 2, 40, ties_share=0.2, long_share=R.LONG_SHARE, real_valued=kind_ == "huge",
                              force_m=gen.huge_size(rng) if kind_ == "huge" else None)
    if len(x) > 2 and abs((x[1] - x[0]) - (x[-1] - x[-2])) < 1e-12 and rng.integers(0, 4):
        x = x.copy()
        x[-1] = x[-1] + (x[-1] - x[-2]) * float(rng.choice([0.5, 1.0, 2.5]))   # make last step != first step
        meta["xcls"] += "+laststep"
    mode = ["function", "composition", "weaver"][int(rng.integers(0, 3))]
    if kind_ == "huge":           # a day of per-second samples repeated a few times
        mode = ["function", "weaver", "composition"][idx % 3]
    info = {"mode": mode, "m": len(x), "xcls": meta["xcls"]}
    if len(x) <= 10:
        info.update({"x": x, "y": y})
    distinct_steps = len(x) > 2 and abs((x[1] - x[0]) - (x[-1] - x[-2])) > 1e-9 * (x[-1] - x[0])
    try:
        with fp_watch(ctx):
            if mode == "function":
                r = int(rng.integers(1, 13)) if kind_ != "huge" else int(rng.integers(2, 5))
                xin, xk = gen.as_container(rng, x)
                yin, yk = gen.as_container(rng, y)
                if rng.integers(0, 10) == 0:
                    # values that are flags (link busy / above threshold) or have gaps: Python / NumPy booleans, and None
                    # the way json.load leaves a null - the values repeated are 0.0 / 1.0 and NaN
                    t = int(rng.integers(0, 3))
                    flags = rng.integers(0, 2, len(x)).astype(bool)
                    if t == 0:
                        yin, yk, y = flags.copy(), "bool array", flags.astype(float)
                    elif t == 1:
                        yin, yk, y = [bool(v) for v in flags], "list of bool", flags.astype(float)
                    else:
                        y = np.asarray(y, dtype=float).copy()
                        gaps_ = rng.integers(0, len(x), max(1, len(x) // 5))
                        yin = [float(v) for v in y]
                        for g_ in gaps_:
                            yin[int(g_)] = None
                            y[int(g_)] = np.nan
                        yk = "list with None"
                r_arg, rt = gen.count_arg(rng, r)
                info.update({"r": r, "r_type": rt, "containers": [xk, yk]})
                if len(x) >= 5 and kind_ != "huge" and rng.integers(0, 3) == 0:
                    # the request served just before this one: the same count on a SIBLING grid - same length, same first
                    # sample, same last two samples, same sum of abscissae, two interior points moved towards each other
                    # (a neighbouring sensor polled at slightly different times): an answer remembered under a cheap
                    # summary of the grid would be handed out for this one
                    xs_ = np.array(x, dtype=float)
                    i_, j_ = sorted(int(v) for v in rng.choice(np.arange(1, len(xs_) - 2), size=2, replace=False)) \
                        if len(xs_) >= 6 else (1, 2)
                    if i_ != j_:
                        d_ = 0.25 * float(np.min(np.diff(xs_)))
                        if np.all(xs_ == np.round(xs_)) and d_ >= 0.25:
                            d_ = 0.25 if d_ < 1 else float(int(d_))
                        xs_[i_] += d_
                        xs_[j_] -= d_
                        if np.all(np.diff(xs_) > 0) and not np.array_equal(xs_, x):
                            try:
                                repeat(xs_, np.zeros(len(xs_)), r_arg)
                                info["earlier_request_on_a_sibling_grid"] = True
                                ctx.count("earlier_request_on_a_sibling_grid")
                            except Exception:
                                pass
                gx, gy = callform.call(rng, repeat, "process.repeat", [xin, yin, r_arg])
                ctx.judged()
                ctx.monitor("c12:repeat")
                if not judge_repeat(ctx, cid, x, y, r, gx, gy, info):
                    return
                if r == 1 and not (np.array_equal(gx, x) and np.array_equal(gy, y, equal_nan=True)):
                    ctx.violation("repeat_once_not_identity", cid, {"case": info})
                    return
                if r >= 2 and distinct_steps:
                    ctx.nontriv("c12", idx)
            elif mode == "composition":
                pairs = [(a, b) for a in range(1, 13) for b in range(1, 13) if a * b <= (24 if kind_ != "huge" else 4)]
                a, b = pairs[int(rng.integers(0, len(pairs)))]
                info.update({"a": a, "b": b})
                (a_arg, at), (b_arg, bt), (ab_arg, abt) = (gen.count_arg(rng, v) for v in (a, b, a * b))
                info["count_types"] = [at, bt, abt]
                x1, y1 = repeat(x, y, a_arg)
                x2, y2 = repeat(x1, y1, b_arg)
                x3, y3 = repeat(x, y, ab_arg)
                ctx.judged()
                ctx.monitor("c12:composition")
                span = float(x3[-1] - x3[0]) if len(x3) > 1 else 1.0
                rel = 1e-9 + 64 * tol.EPS * float(np.max(np.abs(x3))) / max(float(np.min(np.diff(x))), 1e-300)
                if x2.shape != x3.shape or not np.max(np.abs(x2 - x3)) <= rel * max(span, float(np.max(np.abs(x3)))) \
                        or not np.array_equal(y2, y3):
                    ctx.violation("composition", cid, {"max_dx": float(np.max(np.abs(x2 - x3))) if x2.shape == x3.shape else None,
                                                       "case": info})
                    return
                if a * b >= 2 and distinct_steps:
                    ctx.nontriv("c12", idx)
            else:
                r = int(rng.integers(1, 7)) if kind_ != "huge" else int(rng.integers(2, 4))
                info["r"] = r
                wv = Weaver(x.copy(), y.copy())
                if rng.integers(0, 3) and kind_ != "huge":
                    from . import _weaver_ops as W
                    info["history"] = W.random_history(rng, wv, 1, 3, allow=W.DOMAIN_OPS, max_len=120)
                bx, by = (np.array(a, dtype=float).copy() for a in wv.get())
                if len(bx) < 2:
                    return
                r_arg, rt = gen.count_arg(rng, r)
                info["r_type"] = rt
                callform.call(rng, wv.repeat, "Weaver.repeat", [r_arg])
                ctx.judged()
                ctx.monitor("c12:weaver")
                for name, (gx, gy) in (("working", wv.get()), ("reference", wv.get_reference())):
                    if not judge_repeat(ctx, cid, bx, by, r, gx, gy, info, what="weaver_" + name):
                        return
                if r >= 2 and distinct_steps:
                    ctx.nontriv("c12", idx)
    except Exception as e:
        ctx.judged()
        ctx.exception("raised_on_admissible_input", cid, e, {"case": info})
        return
    if idx % 2500 == 12:
        ctx.sample(info)


def run(ctx, spec):
    for idx in range(spec["start"], spec["start"] + spec["count"]):
        run_case(ctx, spec["kind"], idx)


def replay(ctx, case):
    run_case(ctx, case["kind"], case["idx"])
