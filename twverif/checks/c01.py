"""C01 - integral matching reproduces every reference interval integral."""
import itertools

import numpy as np

from . import _match as M
from ..core import fp_watch

from . import _jobs  # noqa: E402

PROPERTY = "C01"
LEVEL = "exploration"
LEVEL_TEXT = ("Post-condition monitor on the real integral_matching_reference_stretch / Weaver.integral_match: after "
              "every call the per-interval and total integrals of the result (own trapezoid / rectangle rules, fixed "
              "points re-resolved by a definitional search) must equal the reference integrals. Random series of "
              "3..1000 samples x 2x2 rules x alpha x 3 fixed-point modes x on/off-grid references, plus an exhaustive "
              "enumeration of fixed-point layouts on small integer grids. Sampled, not proved.")
LEVEL_NOTE = ("Trusts the oracle's own integration rules and neighbour search (models/), float64 comparison at 1e-9 "
              "relative to the magnitude of the integrand terms (widened by the abscissa conditioning factor); the "
              "post-smoothing argument s is left at None (outside the statement).")
TECHNIQUE = "runtime post-condition monitor (independent integrals of the returned series vs reference integrals) under generated workloads; thread-isolation monitor (concurrent vs sequential answers, first-use rounds with sys.monitoring yield injection)"
RULE = ("random cases: x class x y class x fixed-point layout (gaps>=2) x mode {search(closest/lower/higher), "
        "positions, indices} x on/off-grid reference (incl. beyond both ends, unmatched extra reference points) x "
        "2x2 rules x alpha in {.25,.5,1,2,3.7,U(.1,6)} x containers, function and Weaver route; lattice part: all "
        "fixed-point layouts with gaps>=2 on integer grids of 3..N points x 4 rule pairs x 3 modes. non-trivial: at "
        "least one interval whose integral had to move by more than 1e-6 of its scale; distinct by case fingerprint."
        " Input classes include the coincidence classes of gen.py (almost-uniform, nano-scale, [0,1]-spanning, zero-straddling grids; near-ties, pico-scale, centred values) and int32 / Series / tuple / strided / read-only containers; explicitly given fixed points come in any order with repetitions and optionally together with a (necessarily inert) search strategy; documented defaults are exercised by omitting the argument."
        " Round-4 classes: one stretch of the reference / input 1e7..2**55 above the rest, step sizes shrinking over 5-8 decades towards x = 0 (per-interval tolerance from the conditioning of the interval and its neighbours plus the rounding leak of the neighbouring stretches - no share of the global magnitude), a 'large' kind with 5000..18000 samples x 70..260 fixed points (len(x)*len(x_ref) > 2**20), documented call forms (positional / named)."
        " Round-5 classes: names handed over as equal strings that are other objects / numpy.str_ / str subclasses, both fixed-point parameters with different content (indices win), int32 columns (epoch seconds x counters ~1e6), a 'threads' kind (concurrent matching requests vs their sequential answers)."
        " Round-6 classes: fixed-point indices as compact integer arrays (uint8 .. uint64) on series longer than the type's range, the exponent as numpy.float32 / float16 scalar."
        " Round-7 classes: the last fixed index exactly at a narrow index type's maximum (int8 127 / uint8 255); pure functions asked twice with the first answer edited in place (callform.TWICE_OK)."
        " Round-8 classes: the reference on the very grid of the input together with explicitly designated fixed points; first use of the library from several threads at once (fresh process, yields injected at library lines)."
        " Round-9 classes: huge cases with two or three fixed points (ONE interval holding nearly all of 32 769..90 000 samples)."
        " Round-10 classes: both axes as datetime64[s] arrays when they hold whole numbers (function route).")
REQUIRED_MONITORS = ["threads:match", "threads:first_use:match", "threads:first_use_yields_injected", "c01:post"]
ASSUMPTIONS = ["admissible inputs only: strictly increasing x, distinct fixed points one per matched reference point, "
               ">= 1 interior sample per interval (re-checked by the oracle; others are discarded and counted)"]
NSHARDS = 16


def plan(tier, seed):
    return _plan(tier, seed) + _jobs.plan(tier)


def _plan(tier, seed):
    n = 16000 if tier == "quick" else 1200000
    per = n // NSHARDS
    specs = [{"kind": "random", "start": p * per, "count": per} for p in range(NSHARDS)]
    specs += [{"kind": "lattice", "part": p, "parts": 8, "maxm": 9 if tier == "quick" else 13} for p in range(8)]
    big = 1 if tier == "quick" else 30
    specs += [{"kind": "large", "start": p * big, "count": big} for p in range(4 if tier == "quick" else 16)]
    specs += [{"kind": "huge", "start": 2 * p, "count": 2} for p in range(2 if tier == "quick" else 8)]
    return specs


def exhaustive(tier, merged):
    return ("lattice part only: every fixed-point layout (>=2 fixed points, gaps>=2) on x=0..m-1 for m=3..%d, x 4 "
            "rule pairs x 3 designation modes (one deterministic y / y_ref per layout)" % (9 if tier == "quick" else 13))


def judge(ctx, cid, case, res):
    r = M.resolve(case)
    if r is None:
        ctx.discard("inadmissible_after_rounding")
        return
    fi, ri = r
    ctx.judged()
    ctx.monitor("c01:post")
    ctx.count("mode:%s%s" % (case["mode"], ":" + case["strategy"] if case["mode"] == "search" else ""))
    ctx.count("rules:%s/%s" % (case["target_rule"], case["ref_rule"]))
    ctx.count("route:%s" % ("weaver" if case.get("weaver") else "function"))
    ctx.count("ref:%s%s" % ("on_grid" if case["on_grid"] else "off_grid", "+extras" if case["extras"] else ""))
    if case.get("same_grid"):
        ctx.count("ref:the_grid_of_the_input_itself")
    if not M.well_formed(res, len(case["x"])):
        ctx.violation("result_malformed", cid, {"type": type(res).__name__, "res": res, "case": M.brief(case)})
        return
    if M.judge_c01(ctx, cid, case, [float(v) for v in res], fi, ri):
        ctx.nontriv(cid.get("kind"), cid.get("idx"), cid.get("layout"), case["mode"], case["target_rule"],
                    case["ref_rule"])


def run_random_case(ctx, kind, idx):
    rng = ctx.rng(kind, idx)
    case = M.gen_case(rng, weaver=bool(rng.integers(0, 7) == 0), large=kind == "large", huge=kind == "huge")
    if kind == "large":
        ctx.count("large:len(x)*len(x_ref)>2**20" if len(case["x"]) * len(case["x_ref"]) > 2 ** 20 else "large:below_2**20")
    cid = ctx.case_id(kind, idx)
    try:
        with fp_watch(ctx):
            res = M.execute(rng, case)
    except Exception as e:
        if M.resolve(case) is None:
            ctx.discard("inadmissible_after_rounding")
            return
        ctx.judged()
        ctx.exception("raised_on_admissible_input", cid, e, {"case": M.brief(case)})
        return
    judge(ctx, cid, case, res)
    if idx % 3000 == 7:
        ctx.sample(M.brief(case))


def lattice_layouts(maxm):
    for m in range(3, maxm + 1):
        for k in range(2, (m - 1) // 2 + 2):
            for idx in itertools.combinations(range(m), k):
                if all(b - a >= 2 for a, b in zip(idx, idx[1:])):
                    yield m, idx


def lattice_case(m, idx, mode, tr, rr, j):
    x = np.arange(m, dtype=float)
    y = np.array([((3 * i * i + 5 * i + j) % 7) - 3.0 for i in range(m)])
    xr = np.array([x[i] for i in idx])
    yr = np.array([((5 * i + 2 * j) % 9) - 2.5 for i in range(len(idx))])
    return {"x": x, "y": y, "x_ref": xr, "y_ref": yr, "idx": list(idx), "mode": mode, "strategy": "closest",
            "on_grid": True, "extras": 0, "alpha": 1.0, "target_rule": tr, "ref_rule": rr, "xcls": "lattice",
            "ycls": "lattice", "m": m, "K": len(idx), "weaver": False}


def run_lattice(ctx, spec):
    from traffic_weaver.match import integral_matching_reference_stretch
    for j, (m, idx) in enumerate(lattice_layouts(spec["maxm"])):
        if j % spec["parts"] != spec["part"]:
            continue
        for mode in ("search", "positions", "indices"):
            for tr in M.RULES:
                for rr in M.RULES:
                    case = lattice_case(m, idx, mode, tr, rr, j)
                    cid = {"kind": "lattice", "layout": [m, list(idx)], "mode": mode, "tr": tr, "rr": rr, "j": j,
                           "seed": ctx.seed}
                    try:
                        res = integral_matching_reference_stretch(case["x"], case["y"], case["x_ref"], case["y_ref"],
                                                                  **M.call_args(case))
                    except Exception as e:
                        ctx.judged()
                        ctx.exception("raised_on_admissible_input", cid, e, {"case": M.brief(case)})
                        continue
                    judge(ctx, cid, case, res)
        if j % 400 == 3:
            ctx.sample({"lattice_layout": {"m": m, "fixed": list(idx)}})


def run(ctx, spec):
    if spec["kind"] in ("threads", "threads_cold"):      # concurrent independent requests vs their sequential answers
        return _jobs.run(ctx, spec, ["match"])
    if spec["kind"] == "lattice":
        run_lattice(ctx, spec)
    else:
        for idx in range(spec["start"], spec["start"] + spec["count"]):
            run_random_case(ctx, spec["kind"], idx)


def replay(ctx, case):
    if case["kind"] in ("threads", "threads_cold"):
        return _jobs.run_case(ctx, ["match"], case["idx"], cold=case["kind"] == "threads_cold")
    if case["kind"] == "lattice":
        from traffic_weaver.match import integral_matching_reference_stretch
        m, idx = case["layout"]
        c = lattice_case(m, tuple(idx), case["mode"], case["tr"], case["rr"], case["j"])
        res = integral_matching_reference_stretch(c["x"], c["y"], c["x_ref"], c["y_ref"], **M.call_args(c))
        judge(ctx, case, c, res)
    else:
        run_random_case(ctx, case["kind"], case["idx"])
