"""Child process: run one shard (or one replay) of a property's workload and write its report as JSON."""
import importlib
import json
import sys
import time
import traceback


def main(argv):
    prop, tier, seed, specjson, out = argv[:5]
    replay = len(argv) > 5 and argv[5] == "replay"
    from . import import_target
    from .core import Ctx
    try:
        import_target()
    except BaseException as e:
        if not sys.flags.optimize:
            raise
        # the package imports under the plain interpreter (the other shards run) but not under python -O / -OO: every
        # request of every caller running with that flag fails
        ctx = Ctx(prop, tier, int(seed), json.loads(specjson))
        ctx.judged()
        ctx.exception("library_cannot_be_imported_under_python_-%s" % ("O" * int(sys.flags.optimize)),
                      {"kind": json.loads(specjson).get("kind"), "idx": 0, "seed": int(seed)}, e)
        rep = ctx.report()
        rep.update({"status": "ok", "error": None, "wall_s": 0.0})
        with open(out, "w") as f:
            json.dump(rep, f)
        return 0
    import numpy as np
    np.seterr(all="warn")
    mod = importlib.import_module("twverif.checks." + prop.lower())
    spec = json.loads(specjson)
    ctx = Ctx(prop, tier, int(seed), spec, replaying=replay)
    t0 = time.time()
    status = "ok"
    err = None
    try:
        if replay:
            mod.replay(ctx, spec)
        else:
            mod.run(ctx, spec)
    except BaseException as e:  # harness failure, not a verdict
        status = "harness_error"
        err = "".join(traceback.format_exception(type(e), e, e.__traceback__))[-4000:]
    rep = ctx.report()
    rep["status"] = status
    rep["error"] = err
    rep["wall_s"] = time.time() - t0
    with open(out, "w") as f:
        json.dump(rep, f)
    return 0


if __name__ == "__main__":
    sys.exit(main(sys.argv[1:]))
