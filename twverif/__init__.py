"""twverif - runtime monitoring of w4k2/traffic-weaver's semantic properties (see /verif/DESIGN.md)."""
import os
import sys

HOME = os.environ.get("TWVERIF_HOME") or os.path.dirname(os.path.dirname(os.path.abspath(__file__)))
REPO = os.environ.get("TWVERIF_REPO", "/repo")

# third-party helpers (icontract) live in a git-ignored directory; appended so that they never shadow /venv
_deps = os.path.join(HOME, ".deps")
if os.path.isdir(_deps) and _deps not in sys.path:
    sys.path.append(_deps)


def import_target():
    """Import the code under test and make sure it comes from the repository's working tree."""
    src = os.path.join(REPO, "src")
    if src not in sys.path:
        sys.path.insert(0, src)
    import traffic_weaver
    where = os.path.realpath(traffic_weaver.__file__)
    if not where.startswith(os.path.realpath(src) + os.sep):
        raise RuntimeError("traffic_weaver imported from %s, expected under %s" % (where, src))
    return traffic_weaver
