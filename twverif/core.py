"""Shard-side context: counters, verdict records, deterministic per-case randomness."""
import hashlib
import json
import os
import sys
import traceback
import warnings
import zlib
from collections import Counter, defaultdict

import numpy as np

MAX_WITNESSES_PER_SHARD = 12
# per-case determinism for workload choices made outside the case's own generator (set by Ctx.case_id)
CASE_SALT = 0
CASE_CALLS = {}
MAX_SAMPLES_PER_SHARD = 3


def jsonable(o, _depth=0):
    """Turn cases / witnesses into something json.dump accepts (arrays -> lists, floats kept exactly via repr)."""
    if _depth > 8:
        return repr(o)
    if o is None or isinstance(o, (bool, int, str)):
        return o
    if isinstance(o, float):
        if o != o or o in (float("inf"), float("-inf")):
            return repr(o)
        return o
    if isinstance(o, (np.bool_,)):
        return bool(o)
    if isinstance(o, np.integer):
        return int(o)
    if isinstance(o, np.floating):
        return jsonable(float(o))
    if isinstance(o, np.ndarray):
        if o.size > 400:
            return {"ndarray": True, "shape": list(o.shape), "dtype": str(o.dtype),
                    "head": jsonable(o.ravel()[:20].tolist(), _depth + 1), "sha": fingerprint(o)}
        return jsonable(o.tolist(), _depth + 1)
    if isinstance(o, dict):
        return {str(k): jsonable(v, _depth + 1) for k, v in o.items()}
    if isinstance(o, (list, tuple)):
        if len(o) > 400:
            return {"list": True, "len": len(o), "head": [jsonable(v, _depth + 1) for v in o[:20]]}
        return [jsonable(v, _depth + 1) for v in o]
    if isinstance(o, (set, frozenset)):
        return sorted(jsonable(v, _depth + 1) for v in o)
    return repr(o)


def fingerprint(a):
    """Stable content hash of an array-like (bytes + dtype + shape + container type)."""
    if isinstance(a, np.ndarray):
        b = np.ascontiguousarray(a)
        h = hashlib.sha1()
        h.update(str(b.dtype).encode())
        h.update(str(b.shape).encode())
        h.update(b.tobytes())
        return h.hexdigest()[:16]
    return hashlib.sha1(repr(a).encode()).hexdigest()[:16]


def h64(*parts):
    """64-bit hash of a canonical description (for distinct-case counting)."""
    s = json.dumps(jsonable(parts), sort_keys=True, default=repr)
    return int.from_bytes(hashlib.blake2b(s.encode(), digest_size=8).digest(), "big")


def _kind_id(kind):
    return zlib.crc32(kind.encode()) & 0x7FFFFFFF


class Ctx:
    def __init__(self, prop, tier, seed, spec, replaying=False):
        self.prop = prop
        self.propnum = int(prop[1:])
        self.tier = tier
        self.seed = int(seed)
        self.spec = spec
        self.replaying = replaying
        self.evaluations = 0
        self.nontrivial = set()
        self.counters = Counter()
        self.monitors = Counter()
        self.discards = Counter()
        self.samples = []
        self.violations = []
        self.n_violations = 0
        self.fp_warnings = Counter()
        self.worst = {}
        self.notes = []
        self.sets = defaultdict(set)
        if sys.flags.optimize:
            self.counters["interpreter:python -O shards"] += 1

    # ---- randomness: every case has its own generator, so a case can be replayed alone
    def rng(self, kind, idx):
        return np.random.default_rng([self.seed & 0xFFFFFFFF, self.propnum, _kind_id(kind), int(idx)])

    def case_id(self, kind, idx, **extra):
        d = {"kind": kind, "idx": int(idx), "seed": self.seed}
        d.update(extra)
        if sys.flags.optimize:
            d["python_O"] = int(sys.flags.optimize)
        self.last_case = d
        global CASE_SALT
        CASE_SALT = zlib.crc32(("%s:%s:%s" % (kind, int(idx), self.seed)).encode())
        CASE_CALLS.clear()
        return d

    # ---- accounting
    def judged(self, n=1):
        self.evaluations += n

    def monitor(self, name, n=1):
        self.monitors[name] += n

    def count(self, name, n=1):
        self.counters[name] += n

    def discard(self, reason, n=1):
        self.discards[reason] += n

    def nontriv(self, *key):
        self.nontrivial.add(h64(*key))

    def sample(self, obj):
        if len(self.samples) < MAX_SAMPLES_PER_SHARD:
            self.samples.append(jsonable(obj))

    def track_worst(self, name, value):
        try:
            v = float(value)
        except Exception:
            return
        if v != v:
            return
        if name not in self.worst or v > self.worst[name]:
            self.worst[name] = v

    def setadd(self, name, item):
        self.sets[name].add(item if isinstance(item, str) else json.dumps(jsonable(item), sort_keys=True))

    def note(self, text):
        if len(self.notes) < 20:
            self.notes.append(text)

    # ---- verdicts
    def violation(self, clause, case, detail=None, mechanism=None):
        """Record a violated clause.  `mechanism` is a stable tag used only for known-finding matching."""
        self.n_violations += 1
        self.counters["violated:" + clause] += 1
        if sys.flags.optimize and isinstance(case, dict) and "python_O" not in case:
            case = dict(case, python_O=int(sys.flags.optimize))
        if mechanism is not None:
            self.counters["mech:" + mechanism] += 1
            keep = sum(1 for v in self.violations if v.get("mechanism") == mechanism) < 2
        else:
            keep = sum(1 for v in self.violations if v.get("mechanism") is None) < MAX_WITNESSES_PER_SHARD
        if keep:
            self.violations.append({"property": self.prop, "clause": clause, "mechanism": mechanism,
                                    "case": jsonable(case), "detail": jsonable(detail)})

    def exception(self, clause, case, exc, extra=None):
        tb = "".join(traceback.format_exception(type(exc), exc, exc.__traceback__))[-3000:]
        d = {"exception": type(exc).__name__, "message": str(exc)[:500], "traceback": tb}
        if extra:
            d.update(jsonable(extra))
        self.violation(clause, case, d)

    def report(self):
        return {"property": self.prop, "tier": self.tier, "seed": self.seed, "spec": self.spec,
                "evaluations": self.evaluations,
                # shards work on disjoint case ranges (keys contain the case index / partition), so big sets are
                # reported by their size only and summed by the driver
                "nontrivial": sorted(self.nontrivial) if len(self.nontrivial) <= 50000 else [],
                "nontrivial_count": len(self.nontrivial),
                "counters": dict(self.counters), "monitors": dict(self.monitors),
                "discards": dict(self.discards), "samples": self.samples,
                "violations": self.violations, "n_violations": self.n_violations,
                "fp_warnings": dict(self.fp_warnings), "worst": self.worst, "notes": self.notes,
                "sets": {k: sorted(v) for k, v in self.sets.items()}}


class fp_watch:
    """FP 'sanitizer': records RuntimeWarnings raised while the code under test runs; never a verdict."""

    def __init__(self, ctx):
        self.ctx = ctx
        self.tripped = []
        self.cm = warnings.catch_warnings(record=True)

    def __enter__(self):
        self.log = self.cm.__enter__()
        warnings.simplefilter("always")
        return self

    def __exit__(self, *a):
        for w in self.log:
            self.ctx.fp_warnings[w.category.__name__ + ":" + str(w.message)[:60]] += 1
        # what a caller running with warnings as errors (python -W error, pytest filterwarnings = error) or with
        # numpy.seterr(all="raise") would have got instead of a result: the floating-point warnings of this request
        # (warnings raised inside the CALLER's own code - sampling functions, trend callables defined by the workload -
        # are the caller's business, not the library's)
        here = os.path.dirname(os.path.abspath(__file__))
        self.tripped = sorted({w.category.__name__ + ": " + str(w.message)[:80] for w in self.log
                               if issubclass(w.category, RuntimeWarning)
                               and not os.path.abspath(str(getattr(w, "filename", ""))).startswith(here)})
        # deprecation-class warnings raised from the library's own files: hidden by Python's default filters, an
        # exception for every caller running with warnings as errors - and a result that disappears with the next
        # release of the dependency.  The unchanged tree emits none, on any input of any check.
        dep = sorted({w.category.__name__ + ": " + str(w.message)[:100] for w in self.log
                      if issubclass(w.category, (DeprecationWarning, PendingDeprecationWarning, FutureWarning))
                      and "traffic_weaver" in str(getattr(w, "filename", ""))})
        if dep and a[0] is None:
            self.ctx.violation("deprecation_warning_raised_inside_the_library", getattr(self.ctx, "last_case", None) or {"kind": "?"},
                               {"warnings": dep[:4]})
        return self.cm.__exit__(*a)

    def saw(self, category):
        return any(issubclass(w.category, category) for w in self.log)
