"""pytest plugin: runs the repository's own suite with the runtime monitors attached (extra workload, DESIGN 3.9).

  /venv/bin/python -m pytest -p twverif.pytest_plugin ...      with TWVERIF_PYTEST_OUT=<json file>
Records of the contract recorder and of the Weaver class invariant are written to the JSON file at session end.
Objects produced by unittest.mock (the suite patches several delegates) are recognised and not judged.
"""
import json
import os
import unittest.mock

from twverif.core import Ctx
from twverif.monitors import rfa_mon, search_mon, weaver_inv
from twverif.monitors.contracts import Installer, Slot

_ctx = Ctx("C09", "suite", 0, {"kind": "suite"})
_inst = Installer()


def _is_mock(o):
    return isinstance(o, unittest.mock.NonCallableMock)


def pytest_configure(config):
    import traffic_weaver  # noqa: F401
    Slot.ctx = _ctx
    Slot.case = {"kind": "suite"}
    search_mon.install(_inst)
    rfa_mon.install(_inst)
    # The suite's own tests sometimes corrupt an object on purpose (test_copy writes into get()[0]); a class
    # invariant evaluated before a call would blame the library for that.  Here every public method is wrapped so
    # that the state is judged after the call only when it was well-formed before it.
    import functools
    from traffic_weaver.weaver import Weaver

    def describe(self):
        try:
            x, y = self.x, self.y
        except AttributeError:
            return "unconstructed"
        if _is_mock(x) or _is_mock(y):
            _ctx.count("suite:mock_objects_not_judged")
            return "mock"
        return weaver_inv.describe_problem(x, y)

    def wrap(name, f):
        @functools.wraps(f)
        def wrapper(self, *a, **kw):
            pre = describe(self) if name != "__init__" else None
            out = f(self, *a, **kw)
            if pre is None:
                post = describe(self)
                _ctx.monitor("weaver_invariant")
                if post not in (None, "mock"):
                    _ctx.violation("weaver_invariant", Slot.case, {"problem": post, "after": name})
            else:
                _ctx.count("suite:pre_state_not_well_formed_call_not_judged")
            return out
        return wrapper
    for name, f in list(vars(Weaver).items()):
        if callable(f) and not isinstance(f, (staticmethod, classmethod)) and (not name.startswith("_") or name == "__init__"):
            setattr(Weaver, name, wrap(name, f))


def pytest_runtest_setup(item):
    Slot.case = {"kind": "suite", "test": item.nodeid}


def pytest_sessionfinish(session, exitstatus):
    out = os.environ.get("TWVERIF_PYTEST_OUT")
    if out:
        rep = _ctx.report()
        rep["pytest_exitstatus"] = int(exitstatus)
        with open(out, "w") as f:
            json.dump(rep, f)
