"""Call form as a workload dimension.

The documented parameter NAMES and their ORDER are part of every public signature: a request may pass its optional
parameters by keyword or positionally in the documented order, and its mandatory parameters by position or by name.
A change that reorders, inserts or renames parameters leaves every keyword-only (or position-only) workload
bit-identical, so the harness varies the form itself.  The tables below are written from the documentation of the
pinned release (docstring "Parameters" sections), NOT read from the running code with inspect - the running code is
what is being judged.

    call(rng, fn, "process.truncate", [x, y, l, r], {"x_left_as_ratio": True})

passes, with probability P_POS, the longest documented prefix of optional parameters positionally (parameters the
request left out are filled with their documented defaults when a later one was supplied), with probability P_KW all
mandatory parameters by name, and otherwise calls fn(*args, **kw) unchanged.
"""

P_POS = 0.25
P_KW = 0.15

_RFA_LEAD = ["x", "y", "n"]
DOC = {
    # strategies (constructor parameters after x, y, n)
    "PiecewiseConstantRFA": (_RFA_LEAD, []),
    "CubicSplineRFA": (_RFA_LEAD, []),
    "LinearFixedRFA": (_RFA_LEAD, [("alpha", 1.0), ("a", None)]),
    "LinearAdaptiveRFA": (_RFA_LEAD, [("alpha", 1.0), ("a", None), ("adaptive_smooth", 1.0)]),
    "ExpFixedRFA": (_RFA_LEAD, [("alpha", 1.0), ("beta", 0.5), ("a", None), ("exp", 2.0)]),
    "ExpAdaptiveRFA": (_RFA_LEAD, [("alpha", 1.0), ("beta", 0.5), ("a", None), ("adaptive_smooth", 1.0),
                                   ("exp", 2.0)]),
    "FunctionRFA": (_RFA_LEAD, [("sampling_function_supplier", None), ("sampling_function_supplier_kwargs", None)]),
    # process
    "process.interpolate": (["x", "y", "new_x"], [("method", "linear")]),
    "process.repeat": (["x", "y", "repeats"], []),
    "process.trend": (["x", "y", "fun"], [("normalized", False)]),
    "process.linear_trend": (["x", "y", "a"], [("normalized", False)]),
    "process.spline_smooth": (["x", "y"], [("s", None)]),
    "process.noise_gauss": (["a"], [("snr", None), ("snr_in_db", True), ("std", 1.0)]),
    "process.average": (["x", "y", "interval"], []),
    "process.truncate": (["x", "y", "x_left", "x_right"], [("x_left_as_ratio", False), ("x_right_as_ratio", False)]),
    "process.normalize": (["a"], [("min_val", 0), ("max_val", 1)]),
    # match
    "match.integral_matching_reference_stretch": (
        ["x", "y", "x_ref", "y_ref"],
        [("fixed_points_in_x", None), ("fixed_points_indices_in_x", None), ("fixed_points_finding_strategy", "closest"),
         ("target_function_integral_method", "trapezoid"), ("reference_function_integral_method", "rectangle"),
         ("alpha", 1.0), ("s", None)]),
    # sorted_array_utils
    "sau.append_one_sample": (["x", "y"], [("make_periodic", False)]),
    "sau.oversample_linspace": (["a", "num"], []),
    "sau.oversample_piecewise_constant": (["a", "num"], []),
    "sau.extend_linspace": (["a", "n"], [("direction", "both"), ("lstart", None), ("rstop", None)]),
    "sau.extend_constant": (["a", "n"], [("direction", "both")]),
    "sau.rectangle_integral": (["x", "y"], []),
    "sau.trapezoid_integral": (["x", "y"], []),
    "sau.integral": (["x", "y"], [("method", "trapezoid")]),
    "sau.find_closest_lower_equal_element_indices_to_values": (["x", "lookup"], [("fill_not_valid", True)]),
    "sau.find_closest_higher_equal_element_indices_to_values": (["x", "lookup"], [("fill_not_valid", True)]),
    "sau.find_closest_lower_or_higher_element_indices_to_values": (["x", "lookup"], []),
    "sau.find_closest_element_indices_to_values": (["x", "lookup"], [("strategy", "closest"), ("fill_not_valid", True)]),
    "sau.sum_over_indices": (["a", "indices"], []),
    # interval view
    "IntervalArray": (["a"], [("n", 1)]),
    # Weaver (bound methods: self is not listed)
    "Weaver": (["x", "y"], []),
    "Weaver.append_one_sample": ([], [("make_periodic", False)]),
    "Weaver.slice_by_index": ([], [("start", 0), ("stop", None), ("step", 1)]),
    "Weaver.slice_by_value": ([], [("start", None), ("stop", None), ("step", 1)]),
    "Weaver.interpolate": ([], [("n", None), ("new_x", None), ("method", "linear")]),
    "Weaver.recreate_from_average": (["n"], [("rfa_class", None)]),     # strategy parameters go by keyword only
    "Weaver.integral_match": ([], [("target_function_integral_method", "trapezoid"),
                                   ("reference_function_integral_method", "rectangle")]),
    "Weaver.noise": (["snr"], []),
    "Weaver.repeat": (["n"], []),
    "Weaver.trend": (["trend_func"], [("normalized", False)]),
    "Weaver.smooth": (["s"], []),
    "Weaver.to_function": ([], [("s", 0)]),
    "Weaver.scale_x": (["scale"], []),
    "Weaver.scale_y": (["scale"], []),
    "Weaver.shift_x": (["shift"], []),
    "Weaver.shift_y": (["shift"], []),
    "Weaver.normalize_x": (["min_val", "max_val"], []),
    "Weaver.normalize_y": (["min_val", "max_val"], []),
    "Weaver.truncate_by_value": (["x_left", "x_right"], [("x_left_as_ratio", False), ("x_right_as_ratio", False)]),
    "Weaver.truncate_by_index": ([], [("start", 0), ("stop", None)]),
    "Weaver.restore_original": ([], []),
}
FORMS = {"plain": 0, "positional": 0, "named": 0}


def bind(rng, name, args, kw=None, p_pos=P_POS, p_kw=P_KW):
    """(args, kw, form) for one request in a randomly chosen documented call form"""
    args = list(args)
    kw = dict(kw or {})
    if rng is None or name not in DOC:
        return args, kw, "plain"
    mand, opt = DOC[name]
    if len(args) > len(mand):                # the caller already passes optional parameters positionally
        return args, kw, "plain"
    u = float(rng.random())
    if u < p_pos and len(args) == len(mand) and opt:
        last = max((i for i, (k, _d) in enumerate(opt) if k in kw), default=-1)
        if last < 0:
            return args, kw, "plain"
        stop = last + 1 if rng.integers(0, 2) else int(rng.integers(1, last + 2))
        for k, d in opt[:stop]:
            args.append(kw.pop(k) if k in kw else d)
        return args, kw, "positional"
    if u < p_pos + p_kw and args and len(args) <= len(mand):
        keep = int(rng.integers(0, len(args)))           # a positional prefix may stay
        for k, v in list(zip(mand, args))[keep:]:
            kw[k] = v
        return args[:keep], kw, "named"
    return args, kw, "plain"


def _names(rng, a, k):
    """string-valued arguments (strategy, rule, method, direction names) are handed over as the literal or as an equal
    string that is another object / a numpy.str_ / a str subclass (gen.fresh_str): equality, not identity, is the contract"""
    from . import gen
    a = [gen.fresh_str(rng, v) if isinstance(v, str) else v for v in a]
    k = {key: (gen.fresh_str(rng, v) if isinstance(v, str) else v) for key, v in k.items()}
    return a, k


# functions whose answer is a fresh array owned by the caller: asking the same question again after the caller has
# written into the first answer must give the same answer (no answer may be kept and handed out again by the library)
TWICE_OK = {"process.interpolate", "process.repeat", "process.normalize", "process.average",
            "match.integral_matching_reference_stretch", "sau.oversample_linspace", "sau.oversample_piecewise_constant",
            "sau.extend_linspace", "sau.extend_constant", "sau.find_closest_element_indices_to_values",
            "sau.find_closest_lower_equal_element_indices_to_values", "sau.find_closest_higher_equal_element_indices_to_values",
            "sau.find_closest_lower_or_higher_element_indices_to_values"}
P_TWICE = 0.12
TWICE = {"asked_twice": 0}


def scribble(result, inputs):
    """write into every array of a first answer that does not share memory with an input (the caller's own data)"""
    import numpy as np
    parts = result if isinstance(result, (tuple, list)) else [result]
    ins = [v for v in inputs if isinstance(v, np.ndarray)]
    done = 0
    for r in parts:
        if isinstance(r, np.ndarray) and r.flags.writeable and r.size and r.dtype.kind in "fiu" \
                and not any(np.shares_memory(r, v) for v in ins):
            r += 3
            r *= -2
            done += 1
    return done


def call(rng, fn, name, args, kw=None, **opts):
    a, k, form = bind(rng, name, args, kw, **opts)
    if rng is not None:
        a, k = _names(rng, a, k)
    FORMS[form] += 1
    if rng is not None and name in TWICE_OK and float(rng.random()) < P_TWICE:
        try:
            first = fn(*a, **k)
        except Exception:
            return fn(*a, **k)
        if scribble(first, list(a) + list(k.values())):
            TWICE["asked_twice"] += 1
        return fn(*a, **k)            # the answer that is judged is the SECOND one
    return fn(*a, **k)
