"""Thread-isolation monitor: independent requests issued at the same time from several threads.

Every request owns its data (its own arrays, its own objects); nothing is shared between the requests on the caller's
side.  The oracle is the real code itself: each request is first answered sequentially, then all requests are issued
again concurrently from a pool of threads (released together by a barrier, with the interpreter's switch interval
lowered so that threads interleave inside the library's pure-Python loops), and every concurrent answer must be
bit-identical to the sequential answer of the same request.  A difference, or an exception that the sequential pass did
not raise, means that the library keeps per-request data in a place shared between requests (module-level buffers,
strategy objects created once at import, class attributes).  The sequential answers themselves are judged by the other
kinds of the same check.

First use: a `cold` call issues the concurrent round BEFORE anything has been asked sequentially in this process (the
caller makes sure the process is fresh), with a yield injected at library lines (sys.monitoring LINE events in files of
the package: a short real sleep on a random share of the first few hundred lines of every thread), so that whatever the
library sets up lazily on its first request - tables, caches, imports - is set up while other requests are in flight.
The sequential answers are taken afterwards and compared as usual.

Shared objects: a family may hand out requests that read ONE object from all threads (a strategy object asked for its
series, a Weaver asked for its function); such requests do not change the object, so the answers must not depend on who
else is asking.

Requests that touch process-global state by contract (numpy.random in `noise`) or third-party code that is not
re-entrant by its own documentation (FITPACK's smoothing-spline routines behind `splrep`) are not issued here.
"""
import os
import random
import sys
import threading
import time
from concurrent.futures import ThreadPoolExecutor

import numpy as np


class YieldInjector:
    """Injects thread switches inside the library: a short real sleep at a random share of the first `per_thread` LINE
    events that every thread executes in files under the package directory."""
    TOOL = 4

    def __init__(self, seed, per_thread=600, share=0.5, max_s=2e-4):
        import traffic_weaver
        self.root = os.path.dirname(os.path.realpath(traffic_weaver.__file__)) + os.sep
        self.rnd = random.Random(seed)
        self.per_thread, self.share, self.max_s = per_thread, share, max_s
        self.tl = threading.local()
        self.lines = 0
        self.yields = 0
        self.lock = threading.Lock()

    def _line(self, code, _lineno):
        if not os.path.realpath(code.co_filename).startswith(self.root):
            return sys.monitoring.DISABLE
        n = getattr(self.tl, "n", 0)
        self.tl.n = n + 1
        if n >= self.per_thread:
            return None
        with self.lock:
            self.lines += 1
            r = self.rnd.random()
            d = self.rnd.random() * self.max_s
        if r < self.share:
            self.yields += 1
            time.sleep(d)
        return None

    def __enter__(self):
        mon = sys.monitoring
        mon.use_tool_id(self.TOOL, "twverif-yield")
        mon.register_callback(self.TOOL, mon.events.LINE, self._line)
        mon.set_events(self.TOOL, mon.events.LINE)
        return self

    def __exit__(self, *a):
        mon = sys.monitoring
        mon.set_events(self.TOOL, 0)
        mon.register_callback(self.TOOL, mon.events.LINE, None)
        mon.free_tool_id(self.TOOL)
        mon.restart_events()


def _freeze(v):
    if isinstance(v, tuple) or isinstance(v, list):
        return tuple(_freeze(u) for u in v)
    if isinstance(v, np.ndarray):
        return ("nd", v.dtype.str, v.shape, v.tobytes())
    if isinstance(v, (np.generic,)):
        return ("np", v.dtype.str, v.tobytes())
    return ("py", repr(v))


def _answer(job):
    try:
        return ("ok", _freeze(job()))
    except Exception as e:                                  # noqa: BLE001 - the exception type is the observation
        return ("exc", type(e).__name__)


def _concurrent_round(jobs, nthreads):
    reqs = [f() for _d, f in jobs]
    barrier = threading.Barrier(min(nthreads, len(reqs)))

    def run(i):
        if i < barrier.parties:
            try:
                barrier.wait(timeout=5)
            except threading.BrokenBarrierError:
                pass
        return _answer(reqs[i])
    with ThreadPoolExecutor(max_workers=nthreads) as ex:
        return list(ex.map(run, range(len(reqs))))


def isolation(ctx, cid, jobs, label, nthreads=4, rounds=3, cold=False):
    """jobs: list of (description, factory) where factory() returns a fresh zero-argument request (own data every time
    it is built, same data for the same factory).  Returns True when every concurrent answer matched.
    cold: the first concurrent round runs before the sequential pass, with yields injected at library lines."""
    old = sys.getswitchinterval()
    first = None
    if cold:
        sys.setswitchinterval(1e-6)
        try:
            with YieldInjector(ctx.seed * 1000003 + len(jobs)) as inj:
                first = _concurrent_round(jobs, nthreads)
        finally:
            sys.setswitchinterval(old)
        ctx.monitor("threads:first_use:" + label, len(jobs))
        ctx.monitor("threads:first_use_lines_seen", inj.lines)
        ctx.monitor("threads:first_use_yields_injected", inj.yields)
    seq = [_answer(f()) for _d, f in jobs]

    def compare(conc, r, what):
        for i, (a, b) in enumerate(zip(seq, conc)):
            if a != b:
                ctx.violation("concurrent_request_differs_from_its_sequential_answer:" + label + what, cid,
                              {"request": jobs[i][0], "sequential": a[0] if a[0] == "ok" else a,
                               "concurrent": b[0] if b[0] == "ok" else b, "round": r,
                               "requests_in_flight": [d for d, _f in jobs][:8], "threads": nthreads})
                return False
        return True
    if first is not None and not compare(first, "first use", ":first_use"):
        return False
    sys.setswitchinterval(1e-6)
    try:
        for r in range(rounds):
            conc = _concurrent_round(jobs, nthreads)
            ctx.monitor("threads:" + label, len(jobs))
            if not compare(conc, r, ""):
                return False
    finally:
        sys.setswitchinterval(old)
    return True
