"""Thread-isolation monitor: independent requests issued at the same time from several threads.

Every request owns its data (its own arrays, its own objects); nothing is shared between the requests on the caller's
side.  The oracle is the real code itself: each request is first answered sequentially, then all requests are issued
again concurrently from a pool of threads (released together by a barrier, with the interpreter's switch interval
lowered so that threads interleave inside the library's pure-Python loops), and every concurrent answer must be
bit-identical to the sequential answer of the same request.  A difference, or an exception that the sequential pass did
not raise, means that the library keeps per-request data in a place shared between requests (module-level buffers,
strategy objects created once at import, class attributes).  The sequential answers themselves are judged by the other
kinds of the same check.

Requests that touch process-global state by contract (numpy.random in `noise`) or third-party code that is not
re-entrant by its own documentation (FITPACK's smoothing-spline routines behind `splrep`) are not issued here.
"""
import sys
import threading
from concurrent.futures import ThreadPoolExecutor

import numpy as np


def _freeze(v):
    if isinstance(v, tuple) or isinstance(v, list):
        return tuple(_freeze(u) for u in v)
    if isinstance(v, np.ndarray):
        return ("nd", v.dtype.str, v.shape, v.tobytes())
    if isinstance(v, (np.generic,)):
        return ("np", v.dtype.str, v.tobytes())
    return ("py", repr(v))


def _answer(job):
    try:
        return ("ok", _freeze(job()))
    except Exception as e:                                  # noqa: BLE001 - the exception type is the observation
        return ("exc", type(e).__name__)


def isolation(ctx, cid, jobs, label, nthreads=4, rounds=3):
    """jobs: list of (description, factory) where factory() returns a fresh zero-argument request (own data every time
    it is built, same data for the same factory).  Returns True when every concurrent answer matched."""
    seq = [_answer(f()) for _d, f in jobs]
    old = sys.getswitchinterval()
    sys.setswitchinterval(1e-6)
    try:
        for r in range(rounds):
            reqs = [f() for _d, f in jobs]
            barrier = threading.Barrier(min(nthreads, len(reqs)))

            def run(i):
                if i < barrier.parties:
                    try:
                        barrier.wait(timeout=5)
                    except threading.BrokenBarrierError:
                        pass
                return _answer(reqs[i])
            with ThreadPoolExecutor(max_workers=nthreads) as ex:
                conc = list(ex.map(run, range(len(reqs))))
            ctx.monitor("threads:" + label, len(reqs))
            for i, (a, b) in enumerate(zip(seq, conc)):
                if a != b:
                    ctx.violation("concurrent_request_differs_from_its_sequential_answer:" + label, cid,
                                  {"request": jobs[i][0], "sequential": a[0] if a[0] == "ok" else a,
                                   "concurrent": b[0] if b[0] == "ok" else b, "round": r,
                                   "requests_in_flight": [d for d, _f in jobs][:8], "threads": nthreads})
                    return False
    finally:
        sys.setswitchinterval(old)
    return True
