"""Post-conditions on the real neighbour-search functions (C10), judged against the definitional oracle."""
import numpy as np

from ..models import search as S
from .contracts import Slot


def _admissible(x, lookup):
    try:
        if len(x) < 1 or len(lookup) < 1:
            return False
        # compare the caller's own values (Python ints stay exact beyond 2**53, floats stay floats)
        xs = [v.item() if hasattr(v, "item") else v for v in x]
        qs = [v.item() if hasattr(v, "item") else v for v in lookup]
        if any(not (a < b) for a, b in zip(xs, xs[1:])):
            return False
        if any(not (a <= b) for a, b in zip(qs, qs[1:])):
            return False
        if any(v != v for v in xs + qs):
            return False
    except Exception:
        return False
    return True


def judge(strategy, x, lookup, fill, result, via):
    ctx = Slot.ctx
    if ctx is None or not Slot.enabled:
        return True
    if not _admissible(x, lookup):
        ctx.count("c10:inadmissible_call_skipped")
        return True
    ctx.monitor("search_post:" + strategy)
    want = S.search([v.item() if hasattr(v, "item") else v for v in x],
                    [v.item() if hasattr(v, "item") else v for v in lookup], strategy, fill)
    shape_ok = isinstance(result, np.ndarray) and result.ndim == 1 and len(result) == len(lookup) \
        and result.dtype.kind == "i"
    got = [int(v) for v in result] if shape_ok else None
    ok = shape_ok and got == want
    if shape_ok and strategy == "closest":
        # The statement says "nearest": judged by EXACT rational distances.  Where the code's answer differs from the
        # exact one, it is the known finding K2 if - and only if - the two candidates are neighbours and their distances
        # to the query, each rounded the way one floating-point subtraction of the Python scalars rounds it, do not
        # separate them in favour of the exact answer (the documented rule applied to the ROUNDED distances gives the code's
        # answer; an exact tie is never K2).
        # Any other disagreement is a violation.
        xs_ = [v.item() if hasattr(v, "item") else v for v in x]
        qs_ = [q.item() if hasattr(q, "item") else q for q in lookup]
        exact = [S.closest_exact(xs_, q) for q in qs_]
        if got == exact:
            return True
        k2 = True
        for g, e, q in zip(got, exact, qs_):
            if g == e:
                continue
            if abs(g - e) != 1 or not (0 <= g < len(xs_)):
                k2 = False
                break
            try:
                from fractions import Fraction
                exact_tie = abs(Fraction(q) - Fraction(xs_[g])) == abs(Fraction(xs_[e]) - Fraction(q))
                dg, de = abs(float(q - xs_[g])), abs(float(xs_[e] - q))
                # a true tie has nothing to do with rounding (it must go to the lower element); with rounded distances
                # the answer must still follow the documented rule applied to THEM: smaller wins, equal goes to the lower
                k2 = (not exact_tie) and (dg < de or (dg == de and g < e))
            except Exception:
                k2 = False
            if not k2:
                break
        if k2:
            ctx.violation("search:closest:nearest_by_exact_distance", Slot.case,
                          {"x": x, "lookup": lookup, "got": result, "exact": exact, "via": via},
                          mechanism="K2-closest-float-distances-round-to-a-tie")
            return True
        ok = False
        want = exact
    if not ok:
        ctx.violation("search:%s%s" % (strategy, "" if fill else ":nofill"), Slot.case,
                      {"x": x, "lookup": lookup, "fill_not_valid": fill, "got": result, "want": want, "via": via})
    return True


def post_lower(x, lookup, fill_not_valid, result):
    return judge("lower", x, lookup, fill_not_valid, result, "find_closest_lower_equal_element_indices_to_values")


def post_higher(x, lookup, fill_not_valid, result):
    return judge("higher", x, lookup, fill_not_valid, result, "find_closest_higher_equal_element_indices_to_values")


def post_closest(x, lookup, result):
    return judge("closest", x, lookup, True, result, "find_closest_lower_or_higher_element_indices_to_values")


def post_dispatch(x, lookup, strategy, fill_not_valid, result):
    if strategy in ("closest", "lower", "higher"):
        return judge(strategy, x, lookup, fill_not_valid, result, "find_closest_element_indices_to_values")
    return True


def install(inst):
    import traffic_weaver.sorted_array_utils as sau
    inst.post(sau, "find_closest_lower_equal_element_indices_to_values", post_lower)
    inst.post(sau, "find_closest_higher_equal_element_indices_to_values", post_higher)
    inst.post(sau, "find_closest_lower_or_higher_element_indices_to_values", post_closest)
    inst.post(sau, "find_closest_element_indices_to_values", post_dispatch)
