"""Post-conditions on the real neighbour-search functions (C10), judged against the definitional oracle."""
import numpy as np

from ..models import search as S
from .contracts import Slot


def _admissible(x, lookup):
    try:
        if len(x) < 1 or len(lookup) < 1:
            return False
        # compare the caller's own values (Python ints stay exact beyond 2**53, floats stay floats)
        xs = [v.item() if hasattr(v, "item") else v for v in x]
        qs = [v.item() if hasattr(v, "item") else v for v in lookup]
        if any(not (a < b) for a, b in zip(xs, xs[1:])):
            return False
        if any(not (a <= b) for a, b in zip(qs, qs[1:])):
            return False
        if any(v != v for v in xs + qs):
            return False
    except Exception:
        return False
    return True


def judge(strategy, x, lookup, fill, result, via):
    ctx = Slot.ctx
    if ctx is None or not Slot.enabled:
        return True
    if not _admissible(x, lookup):
        ctx.count("c10:inadmissible_call_skipped")
        return True
    ctx.monitor("search_post:" + strategy)
    want = S.search([v.item() if hasattr(v, "item") else v for v in x],
                    [v.item() if hasattr(v, "item") else v for v in lookup], strategy, fill)
    ok = isinstance(result, np.ndarray) and result.ndim == 1 and len(result) == len(lookup) \
        and result.dtype.kind == "i" and [int(v) for v in result] == want
    if ok and strategy == "closest":
        # `want` compares the two ROUNDED float distances, as the documented formula read in floating point does.  The
        # statement says "nearest": judged exactly, the rounded comparison is wrong when the distances differ by less than
        # half an ulp of the larger one.  That is a known finding (K2), classified by its mechanism: the code agrees with
        # the float-arithmetic reading and disagrees with the exact one.
        xs_ = [v.item() if hasattr(v, "item") else v for v in x]
        exact = [S.closest_exact(xs_, (q.item() if hasattr(q, "item") else q)) for q in lookup]
        if exact != want:
            ctx.violation("search:closest:nearest_by_exact_distance", Slot.case,
                          {"x": x, "lookup": lookup, "got": result, "exact": exact, "via": via},
                          mechanism="K2-closest-float-distances-round-to-a-tie")
        return True
    if not ok:
        ctx.violation("search:%s%s" % (strategy, "" if fill else ":nofill"), Slot.case,
                      {"x": x, "lookup": lookup, "fill_not_valid": fill, "got": result, "want": want, "via": via})
    return True


def post_lower(x, lookup, fill_not_valid, result):
    return judge("lower", x, lookup, fill_not_valid, result, "find_closest_lower_equal_element_indices_to_values")


def post_higher(x, lookup, fill_not_valid, result):
    return judge("higher", x, lookup, fill_not_valid, result, "find_closest_higher_equal_element_indices_to_values")


def post_closest(x, lookup, result):
    return judge("closest", x, lookup, True, result, "find_closest_lower_or_higher_element_indices_to_values")


def post_dispatch(x, lookup, strategy, fill_not_valid, result):
    if strategy in ("closest", "lower", "higher"):
        return judge(strategy, x, lookup, fill_not_valid, result, "find_closest_element_indices_to_values")
    return True


def install(inst):
    import traffic_weaver.sorted_array_utils as sau
    inst.post(sau, "find_closest_lower_equal_element_indices_to_values", post_lower)
    inst.post(sau, "find_closest_higher_equal_element_indices_to_values", post_higher)
    inst.post(sau, "find_closest_lower_or_higher_element_indices_to_values", post_closest)
    inst.post(sau, "find_closest_element_indices_to_values", post_dispatch)
