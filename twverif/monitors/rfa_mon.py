"""Post-condition on every <Strategy>.rfa() of the real package: C04's grid structure."""
import numpy as np

from .. import tol
from .contracts import Slot


def judge_structure(ctx, case, x, n, xs, ys, via):
    """x: the strategy's input abscissae (float64), n: factor; xs, ys: what rfa() returned"""
    from ..checks import _rfa
    m = len(x)
    ctx.monitor("rfa_post")
    bad = _rfa.well_formed(xs, ys, m, n)
    if bad:
        ctx.violation("structure", case, {"problem": bad, "via": via, "m": m, "n": int(n)})
        return False
    xf = np.asarray(x, dtype=np.float64)
    if not np.array_equal(xs[::n], xf):
        i = int(np.argmax(xs[::n] != xf))
        ctx.violation("nth_abscissa_not_original", case, {"k": i, "got": xs[::n][i], "want": xf[i], "via": via})
        return False
    if not np.array_equal(np.signbit(xs[::n]), np.signbit(xf)):       # "bit for bit": also the sign of a zero abscissa
        i = int(np.argmax(np.signbit(xs[::n]) != np.signbit(xf)))
        ctx.violation("nth_abscissa_not_original", case, {"k": i, "got": repr(float(xs[::n][i])), "want": repr(float(xf[i])),
                                                          "via": via, "what": "sign of zero"})
        return False
    rel = tol.rel_for(xf)
    d = np.diff(xs)
    if not np.all(d > 0):
        ctx.violation("abscissae_not_increasing", case, {"via": via, "min_gap": float(np.min(d))})
        return False
    want = np.repeat(np.diff(xf) / n, n)
    if not np.all(np.abs(d - want) <= rel * np.abs(want) + 4 * tol.EPS * np.max(np.abs(xf))):
        i = int(np.argmax(np.abs(d - want)))
        ctx.violation("gaps_not_equal", case, {"index": i, "gap": d[i], "want": want[i], "via": via})
        return False
    return True


def post_rfa(self, result):
    ctx = Slot.ctx
    if ctx is None or not Slot.enabled:
        return True
    try:
        xs, ys = result
    except Exception:
        ctx.violation("structure", Slot.case, {"problem": "rfa() did not return a pair", "type": type(result).__name__})
        return True
    judge_structure(ctx, Slot.case, self.x, self.n, xs, ys, type(self).__name__ + ".rfa")
    return True


def install(inst):
    from traffic_weaver import rfa
    done = []
    for name in dir(rfa):
        c = getattr(rfa, name)
        if isinstance(c, type) and issubclass(c, rfa.AbstractRFA) and "rfa" in c.__dict__ \
                and not getattr(c.__dict__["rfa"], "__isabstractmethod__", False):
            inst.post_method(c, "rfa", post_rfa)
            done.append(name)
    return done
