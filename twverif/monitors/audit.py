"""I/O 'sanitizer': one sys.addaudithook per process recording file writes, renames, removals, temp dirs,
urllib requests and any attempt to touch the real network."""
import os
import sys
import time

EVENTS = []
_installed = False
LOG_FD = None


def _hook(event, args):
    try:
        if event == "open":
            path, mode, flags = args
            writing = (isinstance(mode, str) and any(c in mode for c in "wax+")) or \
                (isinstance(flags, int) and flags & (os.O_WRONLY | os.O_RDWR | os.O_CREAT))
            if writing and isinstance(path, (str, bytes)):
                _rec("open_w", os.fsdecode(path))
            elif isinstance(path, (str, bytes)) and LOG_FD is not None:
                _rec("open_r", os.fsdecode(path))
        elif event == "os.rename":
            _rec("rename", os.fsdecode(args[0]), os.fsdecode(args[1]))
        elif event in ("os.mkdir", "os.remove", "os.rmdir", "shutil.rmtree", "tempfile.mkdtemp", "os.unlink"):
            _rec(event, os.fsdecode(args[0]) if isinstance(args[0], (str, bytes)) else repr(args[0]))
        elif event == "urllib.Request":
            _rec("request", args[0])
        elif event in ("socket.connect", "socket.getaddrinfo", "socket.gethostbyname"):
            _rec("REAL_NETWORK", event, repr(args)[:200])
    except Exception:
        pass


def _rec(*a):
    # paths are recorded absolute (a relative path is relative to the cwd of the moment)
    a = tuple(os.path.abspath(v) if i and isinstance(v, str) and a[0] in
              ("open_w", "open_r", "rename", "os.mkdir", "os.remove", "os.rmdir", "shutil.rmtree", "tempfile.mkdtemp",
               "os.unlink") else v for i, v in enumerate(a))
    EVENTS.append(list(a))
    if LOG_FD is not None:
        try:
            os.write(LOG_FD, ("%d %d %s\n" % (time.monotonic_ns(), os.getpid(), "\t".join(str(v) for v in a))).encode())
        except OSError:
            pass


def install(log_path=None):
    global _installed, LOG_FD
    if log_path:
        LOG_FD = os.open(log_path, os.O_WRONLY | os.O_APPEND | os.O_CREAT, 0o644)
    if not _installed:
        sys.addaudithook(_hook)
        _installed = True


def mark():
    return len(EVENTS)


def since(m):
    return EVENTS[m:]
