"""Fake network for the dataset loader: a urllib opener whose https/http handler serves scripted responses.

The repository's real urlretrieve runs unmodified on top of it (however it was imported), so download,
Content-Length handling, retry loop, checksum, parse, pickle and rename are all the real code.
"""
import email.message
import gzip as _gzip
import hashlib
import zlib
import io
import urllib.error
import urllib.request
import urllib.response


def payload_text(url, rows=40):
    """small unique CSV derived from the URL: strictly increasing first column, finite second column"""
    h = hashlib.sha256(url.encode()).digest()
    base = int.from_bytes(h[:4], "big") % 100000
    lines = []
    for i in range(rows):
        v = ((h[(i * 7) % 32] * 131 + h[(i * 3 + 1) % 32] * 17 + i * base) % 100003) / 97.0
        lines.append("%d,%r" % (base + i * (1 + h[0] % 5), v))
    return "\n".join(lines) + "\n"


def _gzip_members(data, k):
    """a gzip archive of k members (what appending with gzip.open(path, "ab") or `cat a.gz b.gz` produces): the
    verified data is the concatenation of ALL members, cut at line boundaries"""
    lines = data.splitlines(keepends=True)
    k = max(1, min(k, len(lines)))
    cut = [len(lines) * j // k for j in range(k + 1)]
    return b"".join(_gzip.compress(b"".join(lines[cut[j]:cut[j + 1]]), mtime=0) for j in range(k))


def payload_bytes(url, kind="good", rows=40, gz=False):
    good = payload_text(url, rows).encode()
    if gz:
        good = _gzip_members(good, 1 + zlib.crc32(url.encode()) % 3)
    if kind == "good":
        return good
    if kind == "corrupt":          # same length, different content: parses fine, wrong checksum
        txt = payload_text(url, rows).replace("1", "2", 3).encode()
        return _gzip.compress(txt, mtime=0) if gz else txt
    if kind == "truncated":
        return good[: max(1, len(good) // 2)]
    if kind == "garbage":
        return hashlib.sha256(b"garbage" + url.encode()).digest() * 40
    raise KeyError(kind)


def expected_rows(url, rows=40):
    out = []
    for line in payload_text(url, rows).strip().split("\n"):
        a, b = line.split(",")
        out.append((float(a), float(b)))
    return out


def sha256_hex(b):
    return hashlib.sha256(b).hexdigest()


class FakeNet:
    """per-URL script of actions for successive requests; after the script the default action applies"""

    def __init__(self):
        self.scripts = {}
        self.default = "good"
        self.rows = {}
        self.gz = {}
        self.requests = []
        self.slow = 0.0
        self.hold = None            # threading.Barrier: hold responses until that many requests are in flight

    def configure(self, scripts=None, default="good", rows=None, gz=None):
        self.scripts = {u: list(a) for u, a in (scripts or {}).items()}
        self.default = default
        self.rows = dict(rows or {})
        self.gz = dict(gz or {})

    def next_action(self, url):
        s = self.scripts.get(url)
        if s:
            return s.pop(0)
        return self.default

    def respond(self, req):
        url = req.full_url
        action = self.next_action(url)
        self.requests.append([url, action])
        hold = self.hold
        if hold is not None:
            try:
                hold.wait(timeout=3)
            except Exception:           # broken barrier / timeout: a loader did not get as far as its request
                pass
        rows = self.rows.get(url, 40)
        gz = self.gz.get(url, False)
        if action == "urlerror":
            raise urllib.error.URLError("fake network: connection refused")
        if action == "timeout":
            raise TimeoutError("fake network: timed out")
        headers = email.message.Message()
        if action.startswith("http"):       # http503, http429, http408, ...: a transient refusal by the file host
            import http.client
            code = int(action[4:])
            body = b"not now"
            headers["Content-Length"] = str(len(body))
            r = urllib.response.addinfourl(io.BytesIO(body), headers, url, code)
            r.msg = http.client.responses.get(code, "Error")
            return r
        if action == "midbody":    # the connection times out after part of the body has been delivered
            body = payload_bytes(url, "good", rows, gz)
            headers["Content-Length"] = str(len(body))
            r = urllib.response.addinfourl(_DiesMidway(body), headers, url, 200)
            r.msg = "OK"
            return r
        if action == "short":      # announces more bytes than it delivers -> ContentTooShortError in urlretrieve
            body = payload_bytes(url, "good", rows, gz)
            headers["Content-Length"] = str(len(body) + 100)
            r = urllib.response.addinfourl(io.BytesIO(body), headers, url, 200)
            r.msg = "OK"
            return r
        body = payload_bytes(url, action, rows, gz)
        if action != "truncated":
            headers["Content-Length"] = str(len(body))
        r = urllib.response.addinfourl(io.BytesIO(body), headers, url, 200)
        r.msg = "OK"
        return r


class _DiesMidway(io.BytesIO):
    """delivers the first part of the body (cut on a line boundary when there is one), then the read times out"""

    def __init__(self, body):
        cut = body.rfind(b"\n", 0, max(2, len(body) // 2)) + 1 or max(1, len(body) // 2)
        super().__init__(body[:cut])
        self._dead = False

    def read(self, n=-1):
        b = super().read(n)
        if b:
            return b
        raise TimeoutError("fake network: timed out in the middle of the body")


NET = FakeNet()


class _Handler(urllib.request.HTTPSHandler):
    def https_open(self, req):
        return NET.respond(req)

    def http_open(self, req):
        return NET.respond(req)


def install():
    opener = urllib.request.build_opener(_Handler())
    urllib.request.install_opener(opener)
    return NET
