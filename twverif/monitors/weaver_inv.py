"""Class invariant on the real traffic_weaver.weaver.Weaver (icontract.invariant, record-and-continue)."""
import numpy as np

from .contracts import HAVE_ICONTRACT, PostBroken, Slot

if HAVE_ICONTRACT:
    import icontract


def describe_problem(x, y):
    """None when (x, y) is a well-formed processed series, else a description"""
    for name, a in (("x", x), ("y", y)):
        if not isinstance(a, np.ndarray):
            return "%s is %s, not numpy.ndarray" % (name, type(a).__name__)
        if a.ndim != 1:
            return "%s has ndim %d" % (name, a.ndim)
        if a.dtype.kind not in "fiu":
            return "%s has dtype %s" % (name, a.dtype)
    if len(x) != len(y):
        return "len(x)=%d != len(y)=%d" % (len(x), len(y))
    if not np.all(np.isfinite(np.asarray(x, dtype=float))):
        return "x has non-finite values"
    if not np.all(np.isfinite(np.asarray(y, dtype=float))):
        return "y has non-finite values"
    if len(x) > 1 and not np.all(np.diff(np.asarray(x, dtype=float)) > 0):
        return "x is not strictly increasing"
    return None


def well_formed(self):
    ctx = Slot.ctx
    if ctx is None or not Slot.enabled:
        return True
    ctx.monitor("weaver_invariant")
    try:
        bad = describe_problem(self.x, self.y)
    except AttributeError:
        return True        # during construction
    if bad:
        ctx.violation("weaver_invariant", Slot.case, {"problem": bad, "x_type": type(self.x).__name__,
                                                      "y_type": type(self.y).__name__})
    return True


_installed = False


def install():
    """Decorate the real class in place (icontract mutates the class it is given)."""
    global _installed
    from traffic_weaver import weaver
    if _installed or not HAVE_ICONTRACT:
        return _installed
    icontract.invariant(well_formed, error=PostBroken, enabled=True)(weaver.Weaver)     # also under python -O
    _installed = True
    return True
