"""Contract recorder: post-conditions attached to the real functions, in record-and-continue mode.

A condition function is an ordinary named function whose parameters are a subset of the monitored
function's parameter names plus ``result``.  It runs the oracle, records its verdict in the active
context and always returns True, so that a broken post-condition never changes what later monitors see.
icontract is used when it is importable (it is installed from the offline wheelhouse by ./check);
otherwise an equivalent functools.wraps wrapper is used - icontract is a convenience, not trusted base.
"""
import functools
import inspect
import sys

try:  # pragma: no cover - depends on the environment
    import icontract
    HAVE_ICONTRACT = True
except Exception:  # pragma: no cover
    icontract = None
    HAVE_ICONTRACT = False


class PostBroken(Exception):
    """never raised in record-and-continue mode; required by icontract's error= argument"""


class Slot:
    """Holds the context that currently receives monitor records (one per process)."""
    ctx = None
    case = None      # description of the workload case currently driving the code
    enabled = True


def _plain_wrapper(orig, cond):
    sig = inspect.signature(orig)
    names = [p for p in inspect.signature(cond).parameters if p != "result"]

    @functools.wraps(orig)
    def wrapper(*a, **kw):
        result = orig(*a, **kw)
        try:
            b = sig.bind(*a, **kw)
            b.apply_defaults()
            cond(**{n: b.arguments[n] for n in names}, result=result)
        except TypeError:
            raise
        return result
    return wrapper


def ensure(orig, cond):
    """Return `orig` wrapped with the recording post-condition `cond`."""
    if HAVE_ICONTRACT:
        return icontract.ensure(cond, error=PostBroken, enabled=True)(orig)     # also under python -O
    return _plain_wrapper(orig, cond)


class Installer:
    """Attaches wrappers and rebinds every alias (``from m import f``) inside traffic_weaver by identity."""

    def __init__(self):
        self.undo = []

    def replace(self, orig, wrapped):
        n = 0
        for modname, mod in list(sys.modules.items()):
            if mod is None or not (modname == "traffic_weaver" or modname.startswith("traffic_weaver.")):
                continue
            for attr, val in list(vars(mod).items()):
                if val is orig:
                    setattr(mod, attr, wrapped)
                    self.undo.append((mod, attr, orig))
                    n += 1
        return n

    def post(self, module, name, cond):
        orig = getattr(module, name)
        wrapped = ensure(orig, cond)
        wrapped.__twverif_orig__ = orig
        n = self.replace(orig, wrapped)
        if n == 0:
            raise RuntimeError("nothing rebound for %s.%s" % (module.__name__, name))
        return wrapped

    def post_method(self, cls, name, cond):
        orig = cls.__dict__[name]
        is_static = isinstance(orig, staticmethod)
        f = orig.__func__ if is_static else orig
        wrapped = ensure(f, cond)
        setattr(cls, name, staticmethod(wrapped) if is_static else wrapped)
        self.undo.append((cls, name, orig))
        return wrapped

    def uninstall(self):
        for obj, attr, orig in reversed(self.undo):
            setattr(obj, attr, orig)
        self.undo = []
