"""Run the repository's own pytest suite under the monitors and fold its records into a shard context."""
import json
import os
import subprocess
import sys
import tempfile

from . import HOME, REPO


def run_suite(ctx, keep_clauses):
    """keep_clauses: prefixes of violation clauses that belong to the calling property"""
    fd, out = tempfile.mkstemp(prefix="twverif-suite-", suffix=".json")
    os.close(fd)
    env = dict(os.environ)
    env["PYTHONPATH"] = os.path.join(REPO, "src") + os.pathsep + HOME + os.pathsep + os.path.join(HOME, ".deps")
    env["TWVERIF_PYTEST_OUT"] = out
    cmd = [sys.executable, "-m", "pytest", "-q", "-p", "no:cacheprovider", "-p", "twverif.pytest_plugin", "--no-cov",
           "--deselect", "tests/match_test.py"]      # cwd = repository root: its pytest.ini selects tests + doctests
    try:
        p = subprocess.run(cmd, cwd=REPO, env=env, capture_output=True, text=True, timeout=900)
        with open(out) as f:
            rep = json.load(f)
    except Exception as e:
        ctx.note("suite under monitors could not be run: %r" % (e,))
        return False
    finally:
        try:
            os.remove(out)
        except OSError:
            pass
    for k, v in rep["monitors"].items():
        ctx.monitor("suite:" + k, v)
    ctx.count("suite:pytest_exitstatus=%d" % rep.get("pytest_exitstatus", -1))
    for v in rep["violations"]:
        if any(v["clause"].startswith(pfx) for pfx in keep_clauses):
            ctx.violation("suite:" + v["clause"], v["case"], v["detail"], v.get("mechanism"))
    ctx.judged(sum(rep["monitors"].values()) and 1)
    return True
