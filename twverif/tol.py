"""Numeric tolerance policy (DESIGN.md section 3.4)."""
import numpy as np

EPS = float(np.finfo(float).eps)
REL = 1e-9


def cond_x(x):
    """conditioning factor of quantities built from differences of abscissae far from the origin"""
    x = np.asarray(x, dtype=float)
    if len(x) < 2:
        return 0.0
    d = np.diff(x)
    dmin = float(np.min(np.abs(d)))
    if dmin == 0:
        return float("inf")
    return 64.0 * EPS * float(np.max(np.abs(x))) / dmin


def cond_local(x, a, b):
    """cond_x of the stretch x[a..b] alone: per-interval quantities (its integral, its weights, its target) are built
    from differences of ITS abscissae, so a narrow interval near the origin is well conditioned however far away and
    however coarse the rest of the grid is"""
    a = max(int(a), 0)
    b = min(int(b), len(x) - 1)
    if b <= a:
        return 0.0
    seg = np.asarray(x[a:b + 1], dtype=float)
    dmin = float(np.min(np.abs(np.diff(seg))))
    if dmin == 0:
        return float("inf")
    return 64.0 * EPS * float(np.max(np.abs(seg))) / dmin


def rel_for(x=None, extra=0.0):
    r = REL + extra
    if x is not None:
        r += cond_x(x)
    return r


def close(got, want, scale, rel=REL):
    """|got - want| <= rel * scale, where scale is the natural magnitude of the terms (never 0)."""
    got = float(got)
    want = float(want)
    if got != got or want != want:
        return False
    s = max(abs(float(scale)), abs(want), 1e-300)
    return abs(got - want) <= rel * s


def err(got, want, scale):
    s = max(abs(float(scale)), abs(float(want)), 1e-300)
    return abs(float(got) - float(want)) / s


def allclose(got, want, scale, rel=REL):
    got = np.asarray(got, dtype=float)
    want = np.asarray(want, dtype=float)
    if got.shape != want.shape:
        return False
    if not (np.all(np.isfinite(got)) and np.all(np.isfinite(want))):
        return bool(np.array_equal(got, want, equal_nan=True)) and False
    s = np.maximum(np.maximum(np.abs(want), float(scale) if np.isscalar(scale) else np.asarray(scale, float)), 1e-300)
    return bool(np.all(np.abs(got - want) <= rel * s))


def maxerr(got, want, scale):
    got = np.asarray(got, dtype=float)
    want = np.asarray(want, dtype=float)
    if got.shape != want.shape or got.size == 0:
        return float("inf") if got.shape != want.shape else 0.0
    s = np.maximum(np.maximum(np.abs(want), float(scale) if np.isscalar(scale) else np.asarray(scale, float)), 1e-300)
    e = np.abs(got - want) / s
    if np.any(np.isnan(e)):
        return float("inf")
    return float(np.max(e))


def bits_equal(a, b):
    """bit-for-bit equality of two arrays (same dtype kind, shape and bytes; -0.0 != 0.0 is ignored)"""
    a = np.asarray(a)
    b = np.asarray(b)
    return a.shape == b.shape and bool(np.array_equal(a, b))
