"""Driver: fan a property's workload out over subprocess shards, merge, judge, write evidence."""
import hashlib
import importlib
import json
import os
import subprocess
import sys
import tempfile
import time
from collections import Counter

from . import HOME, REPO

PROPS = ["C%02d" % i for i in range(1, 21)]
NCPU = max(1, min(16, os.cpu_count() or 1))
DEFAULT_TIMEOUT = {"quick": 900, "thorough": 7200}


def load_known():
    p = os.path.join(HOME, "known_findings.json")
    if not os.path.exists(p):
        return []
    with open(p) as f:
        return json.load(f).get("findings", [])


def run_shards(prop, tier, seed, specs, timeout):
    """Run every spec as its own child process, at most NCPU at a time.  Returns list of reports."""
    tmp = tempfile.mkdtemp(prefix="twverif-%s-" % prop.lower())
    pending = list(enumerate(specs))
    running = {}
    reports = [None] * len(specs)
    env = dict(os.environ)
    try:
        while pending or running:
            while pending and len(running) < NCPU:
                i, spec = pending.pop(0)
                out = os.path.join(tmp, "shard%d.json" % i)
                cmd = [sys.executable, "-m", "twverif.shard", prop, tier, str(seed), json.dumps(spec), out]
                errf = open(os.path.join(tmp, "shard%d.err" % i), "w")
                # interpreter dimension: PYTHONOPTIMIZE reaches the shard and every process it starts
                env_i = dict(env, PYTHONOPTIMIZE=str(spec["pyopt"])) if spec.get("pyopt") else env
                p = subprocess.Popen(cmd, env=env_i, stdout=errf, stderr=subprocess.STDOUT, cwd=HOME)
                running[i] = (p, out, time.time(), errf, spec)
            done = []
            for i, (p, out, t0, errf, spec) in running.items():
                rc = p.poll()
                if rc is None:
                    if time.time() - t0 > timeout:
                        p.kill()
                        p.wait()
                        errf.close()
                        reports[i] = {"status": "watchdog", "spec": spec, "error": "shard exceeded %ds" % timeout}
                        done.append(i)
                    continue
                errf.close()
                try:
                    with open(out) as f:
                        reports[i] = json.load(f)
                except Exception as e:
                    tail = ""
                    try:
                        tail = open(errf.name).read()[-2000:]
                    except Exception:
                        pass
                    reports[i] = {"status": "no_report", "spec": spec,
                                  "error": "rc=%s %s\n%s" % (rc, e, tail)}
                done.append(i)
            for i in done:
                del running[i]
            if running and not done:
                time.sleep(0.05)
    finally:
        for i, (p, *_r) in running.items():
            p.kill()
        import shutil
        shutil.rmtree(tmp, ignore_errors=True)
    return reports


OPT_SHARDS = {"quick": 6, "thorough": 16}
OPT_OFFSET = 50_000_000


def with_optimized_interpreter(specs, tier):
    """The same workload under `python -O` / `python -OO` (assert statements and `if __debug__` blocks compiled away;
    at level 2 every docstring is None): one extra
    shard per distinct kind of the plan, on case indices of its own where the spec has a range."""
    extra, seen = [], set()
    for sp in specs:
        k = sp.get("kind", "")
        if k in seen or len(extra) >= OPT_SHARDS[tier]:
            continue
        seen.add(k)
        e = dict(sp, pyopt=1 + len(extra) % 2)       # python -O and python -OO (docstrings stripped as well) in turn
        if isinstance(e.get("start"), int) and isinstance(e.get("count"), int):
            e["start"] += OPT_OFFSET
            e["count"] = max(1, min(e["count"], 400 if tier == "quick" else 4000))
        extra.append(e)
    return specs + extra


def merge(reports):
    m = {"evaluations": 0, "nontrivial": set(), "counters": Counter(), "monitors": Counter(),
         "discards": Counter(), "samples": [], "violations": [], "n_violations": 0, "fp_warnings": Counter(),
         "worst": {}, "notes": [], "sets": {}, "bad_shards": [], "shards": len(reports), "shard_wall_s": 0.0}
    for r in reports:
        if r is None or r.get("status") != "ok":
            m["bad_shards"].append({"status": (r or {}).get("status"), "spec": (r or {}).get("spec"),
                                    "error": ((r or {}).get("error") or "")[-1500:]})
            if r is None or "evaluations" not in r:
                continue
        m["evaluations"] += r["evaluations"]
        if r["nontrivial"] or not r.get("nontrivial_count"):
            m["nontrivial"].update(r["nontrivial"])
        else:
            m["nontrivial_big"] = m.get("nontrivial_big", 0) + r["nontrivial_count"]
        m["counters"].update(r["counters"])
        m["monitors"].update(r["monitors"])
        m["discards"].update(r["discards"])
        m["fp_warnings"].update(r["fp_warnings"])
        m["n_violations"] += r["n_violations"]
        m["violations"].extend(r["violations"])
        m["shard_wall_s"] += r.get("wall_s", 0.0)
        for k, v in r["worst"].items():
            if k not in m["worst"] or v > m["worst"][k]:
                m["worst"][k] = v
        for k, v in r.get("sets", {}).items():
            m["sets"].setdefault(k, set()).update(v)
        if r["samples"]:
            m["samples"].append(r["samples"][0])
        m["notes"].extend(r["notes"][:3])
    if len(m["samples"]) > 6:         # one sample per shard kind rather than six of the same kind
        step = len(m["samples"]) / 6.0
        m["samples"] = [m["samples"][int(i * step)] for i in range(6)]
    return m


def write_replay(prop, v):
    d = os.path.join(HOME, "replay", prop)
    os.makedirs(d, exist_ok=True)
    h = hashlib.sha1(json.dumps(v, sort_keys=True, default=repr).encode()).hexdigest()[:12]
    p = os.path.join(d, h + ".json")
    with open(p, "w") as f:
        json.dump(v, f, indent=1, default=repr)
    return p


def check(prop, tier, seed):
    t0 = time.time()
    mod = importlib.import_module("twverif.checks." + prop.lower())
    specs = mod.plan(tier, seed)
    if not getattr(mod, "NO_OPT_SHARDS", False):
        specs = with_optimized_interpreter(specs, tier)
    timeout = getattr(mod, "TIMEOUT", DEFAULT_TIMEOUT).get(tier, DEFAULT_TIMEOUT[tier])
    reports = run_shards(prop, tier, seed, specs, timeout)
    m = merge(reports)
    known = [k for k in load_known() if k.get("status") == "known" and k.get("property") == prop]
    known_mech = {k["mechanism"]: k for k in known}
    real, seen_known = [], Counter()
    for v in m["violations"]:
        if v.get("mechanism") in known_mech:
            seen_known[v["mechanism"]] += 1
        else:
            real.append(v)
    n_known = sum(m["counters"].get("mech:" + mech, 0) for mech in known_mech)
    n_real = max(m["n_violations"] - n_known, len(real))

    inconclusive = []
    for b in m["bad_shards"]:
        inconclusive.append("shard %s: %s" % (b["status"], (b["error"] or "").strip().splitlines()[-1:] or ""))
    for name in getattr(mod, "REQUIRED_MONITORS", []):
        if m["monitors"].get(name, 0) == 0:
            inconclusive.append("monitor '%s' observed nothing" % name)
    ndisc = sum(m["discards"].values())
    if ndisc > m["evaluations"] and not getattr(mod, "DISCARD_HEAVY_OK", False):
        inconclusive.append("more cases discarded (%d) than judged (%d)" % (ndisc, m["evaluations"]))
    distinct = len(m["nontrivial"]) + m.get("nontrivial_big", 0)
    if m["evaluations"] < 1 or distinct < 2:
        inconclusive.append("too few non-trivial cases (%d evaluations, %d distinct non-trivial)"
                            % (m["evaluations"], distinct))

    cov = {"evaluations": int(m["evaluations"]), "distinct_nontrivial": int(distinct),
           "rule": mod.RULE + ("" if getattr(mod, "NO_OPT_SHARDS", False) else
                               " Interpreter dimension: one extra shard per kind of the plan runs under `python -O` / `python -OO` "
                               "(assert statements compiled away, docstrings stripped), on case indices of its own."),
           "samples": m["samples"] or ["<none>"],
           "monitor_evaluations": dict(m["monitors"]), "classes": dict(sorted(m["counters"].items())),
           "discarded": dict(m["discards"]), "fp_warnings_recorded": dict(m["fp_warnings"]),
           "worst_observed": m["worst"], "shards": m["shards"], "shard_cpu_s": round(m["shard_wall_s"], 1),
           "known_findings_observed": dict(seen_known), "inconclusive_reasons": inconclusive}
    for k, v in m["sets"].items():
        cov["distinct_" + k] = len(v)
        cov["some_" + k] = sorted(v)[:8]
    if getattr(mod, "exhaustive", None):
        ex = mod.exhaustive(tier, m)
        if ex:
            cov["exhaustive"] = True
            cov["exhaustive_scope"] = ex
    if m["notes"]:
        cov["notes"] = m["notes"][:10]
    verdict = "violated" if real else ("inconclusive" if inconclusive else "held")
    cov["verdict"] = verdict
    ev = {"property_id": prop, "tier": tier, "seed": int(seed), "level": mod.LEVEL, "coverage": cov,
          "assumptions": list(getattr(mod, "ASSUMPTIONS", [])), "wall_s": round(time.time() - t0, 2),
          "violations": int(n_real if real else 0)}
    if not os.environ.get("TWVERIF_NO_EVIDENCE"):       # scratch runs against modified trees leave the evidence alone
        os.makedirs(os.path.join(HOME, "evidence"), exist_ok=True)
        with open(os.path.join(HOME, "evidence", prop + ".json"), "w") as f:
            json.dump(ev, f, indent=1, default=repr)

    print("%s %s seed=%s: %d evaluations, %d distinct non-trivial, %d shards, %.1fs -> %s"
          % (prop, tier, seed, m["evaluations"], distinct, m["shards"], time.time() - t0, verdict))
    for mech, c in seen_known.items():
        k = known_mech[mech]
        print("KNOWN-FINDING: property=%s %s [%s, observed %d time(s) in this run]"
              % (prop, k["what_fails"], k.get("id", mech), m["counters"].get("mech:" + mech, c)))
    if real:
        shown = set()
        for v in real:
            key = (v["clause"], json.dumps(v["case"].get("kind") if isinstance(v["case"], dict) else None))
            if key in shown and len(shown) >= 1:
                continue
            shown.add(key)
            p = write_replay(prop, v)
            print("VIOLATION property=%s replay=%s" % (prop, p))
            print("  clause: %s" % v["clause"])
            det = json.dumps(v.get("detail"), default=repr)
            print("  detail: %s" % (det[:600] + ("..." if len(det) > 600 else "")))
            if len(shown) >= 6:
                break
        return 1
    if inconclusive:
        for r in inconclusive:
            print("INCONCLUSIVE property=%s %s" % (prop, r))
        return 2
    return 0


def replay(prop, path):
    from . import import_target
    from .core import Ctx
    import_target()
    with open(path) as f:
        v = json.load(f)
    mod = importlib.import_module("twverif.checks." + prop.lower())
    case = v["case"]
    if isinstance(case, dict) and case.get("python_O") and not sys.flags.optimize:
        # found under `python -O`: replay under the same interpreter flags
        lvl = str(int(case["python_O"]))
        return subprocess.call([sys.executable, "-m", "twverif.cli", prop, "--replay", path],
                               env=dict(os.environ, PYTHONOPTIMIZE=lvl), cwd=HOME)
    ctx = Ctx(prop, "replay", int(case.get("seed", 0)), case, replaying=True)
    print("replaying %s case %s" % (prop, json.dumps(case)[:400]))
    mod.replay(ctx, case)
    known_mech = {k["mechanism"] for k in load_known() if k.get("status") == "known" and k.get("property") == prop}
    real = [x for x in ctx.violations if x.get("mechanism") not in known_mech]
    for x in ctx.violations:
        print(("KNOWN-FINDING " if x.get("mechanism") in known_mech else "VIOLATED ") + x["clause"])
        print(json.dumps(x["detail"], indent=1, default=repr)[:4000])
    if real:
        print("VIOLATION property=%s replay=%s" % (prop, path))
        return 1
    print("no violation reproduced (%d evaluations)" % ctx.evaluations)
    return 0


def setup():
    from . import import_target
    tw = import_target()
    import numpy
    import scipy
    print("traffic_weaver from", os.path.dirname(tw.__file__))
    print("numpy", numpy.__version__, "scipy", scipy.__version__, "python", sys.version.split()[0])
    try:
        import icontract
        print("icontract", icontract.__version__)
    except Exception as e:
        print("icontract unavailable (%s): built-in wrappers will be used" % e)
    os.makedirs(os.path.join(HOME, "evidence"), exist_ok=True)
    return 0


def main(argv):
    if argv and argv[0] == "--setup":
        return setup()
    if len(argv) < 2 or argv[0] not in PROPS:
        print("usage: check <C01..C20> <quick|thorough> | check <ID> --replay <file> | check --setup")
        return 64
    prop = argv[0]
    if argv[1] == "--replay":
        return replay(prop, argv[2])
    tier = argv[1] if argv[1] in ("quick", "thorough") else os.environ.get("VERIF_TIER", "quick")
    seed = int(os.environ.get("VERIF_SEED", "0") or 0)
    return check(prop, tier, seed)


if __name__ == "__main__":
    sys.exit(main(sys.argv[1:]))
