"""Child process for the dataset properties (C18, C19): runs a list of steps against the real loader under the
fake network, the audit monitor, virtual sleep and (optionally) a kill point, and prints one JSON result line.

usage: python -m twverif.dschild '<json spec>'      (or @file)
"""
import hashlib
import json
import os
import signal
import sys
import threading
import time

REAL_PID = os.getpid()          # os.getpid may be pinned for the code under test (see pin_ids)


def data_desc(d):
    import numpy as np
    if isinstance(d, tuple):
        return {"tuple": [data_desc(v) for v in d]}
    if not isinstance(d, np.ndarray):
        return {"type": type(d).__name__}
    out = {"shape": list(d.shape), "dtype": str(d.dtype),
           "sha": hashlib.sha256(np.ascontiguousarray(d).tobytes()).hexdigest()[:24],
           "finite": bool(np.all(np.isfinite(d))) if d.dtype.kind == "f" else True}
    if d.ndim == 2 and d.shape[1] == 2 and d.shape[0] > 1:
        out["x_increasing"] = bool(np.all(np.diff(d[:, 0]) > 0))
        out["col_sha"] = [hashlib.sha256(np.ascontiguousarray(d[:, j]).tobytes()).hexdigest()[:24] for j in (0, 1)]
    return out


def listing(home):
    out = []
    for root, dirs, files in os.walk(home):
        rel = os.path.relpath(root, home)
        for d in dirs:
            out.append(os.path.normpath(os.path.join(rel, d)) + "/")
        for f in files:
            p = os.path.join(root, f)
            try:
                st_ = os.stat(p)
                size, mode = st_.st_size, st_.st_mode & 0o777
            except OSError:
                size, mode = -1, None
            out.append([os.path.normpath(os.path.join(rel, f)), size, mode])
    return out


class KillPoints:
    """sys.monitoring tool: counts LINE or CALL/C_RETURN events in watched files, SIGKILLs itself at the k-th"""

    def __init__(self, mode, at, yield_cfg=None, real_sleep=None, pause=None):
        self.mode, self.at = mode, at
        self.pause = pause          # {"ready": path, "resume": path}: SUSPEND at the k-th event instead of dying
        self.only_base = bool((pause or {}).get("only_library_lines"))
        self.count = 0
        self.active = False
        self.sig = []
        self.yield_cfg = yield_cfg
        self.real_sleep = real_sleep or time.sleep
        if yield_cfg:
            import random
            self.rnd = random.Random(yield_cfg.get("seed", 0))
        import traffic_weaver.datasets._base as base
        import tempfile
        import shutil
        import urllib.request
        self.watched = {os.path.realpath(m.__file__) for m in (base, tempfile, shutil, urllib.request)}
        self.base_file = os.path.realpath(base.__file__)
        self._cache = {}

    def is_watched(self, code):
        f = code.co_filename
        w = self._cache.get(f)
        if w is None:
            w = self._cache[f] = os.path.realpath(f) in self.watched
        return w

    def fire(self, what):
        self.count += 1
        if self.at is not None and self.count == self.at:
            if self.pause:
                # stand still exactly here while another loader runs to completion, then carry on
                open(self.pause["ready"], "w").close()
                deadline = time.monotonic() + float(self.pause.get("timeout", 60))
                while not os.path.exists(self.pause["resume"]) and time.monotonic() < deadline:
                    self.real_sleep(0.001)
                return
            sys.stdout.flush()
            os.kill(REAL_PID, signal.SIGKILL)
            time.sleep(10)

    def on_line(self, code, line):
        mon = sys.monitoring
        if not self.is_watched(code):
            return mon.DISABLE
        if not self.active:
            return None
        if self.yield_cfg is not None:
            if self.rnd.random() < self.yield_cfg.get("p", 0.05):
                self.real_sleep(self.rnd.random() * self.yield_cfg.get("max_s", 0.002))
            if self.at is None:
                return None
        if self.mode == "line":
            if self.only_base and os.path.realpath(code.co_filename) != self.base_file:
                return None
            self.fire(("L", os.path.basename(code.co_filename), line))
        return None

    def on_call(self, code, off, callable_, arg0):
        mon = sys.monitoring
        if os.path.realpath(code.co_filename) != self.base_file:
            return mon.DISABLE
        if self.active and self.mode == "call":
            self.fire(("C", getattr(callable_, "__name__", "?")))
        return None

    def on_cret(self, code, off, callable_, arg0):
        if self.active and self.mode == "call" and os.path.realpath(code.co_filename) == self.base_file:
            self.fire(("R", getattr(callable_, "__name__", "?")))
        return None

    def install(self):
        mon = sys.monitoring
        self.tool = mon.DEBUGGER_ID
        mon.use_tool_id(self.tool, "twverif-killpoints")
        ev = mon.events.LINE
        mon.register_callback(self.tool, mon.events.LINE, self.on_line)
        if self.mode == "call":
            ev = ev | mon.events.CALL        # C_RETURN callbacks are delivered whenever CALL is monitored
            mon.register_callback(self.tool, mon.events.CALL, self.on_call)
            mon.register_callback(self.tool, mon.events.C_RETURN, self.on_cret)
        mon.set_events(self.tool, ev)


def main(argv):
    arg = argv[0]
    spec = json.loads(open(arg[1:]).read() if arg.startswith("@") else arg)
    home = spec.get("home")
    if spec.get("home_mode") == "default":
        os.environ.pop("TRAFFIC_WEAVER_DATA", None)
        os.environ["HOME"] = home
    elif spec.get("home_mode") == "tilde":
        # the variable is given the way .env files / unit files give it: relative to the home directory
        os.environ["HOME"] = spec["user_home"]
        os.environ["TRAFFIC_WEAVER_DATA"] = spec["tilde_value"]
        # variables the host application happens to define (a directory component may LOOK like a reference to one)
        os.environ.update(spec.get("extra_env") or {})
    else:
        os.environ["TRAFFIC_WEAVER_DATA"] = home
        # a loader that ignored the variable must not reach the real home directory: stray writes land in scratch
        stray = os.path.join(os.path.dirname(os.path.abspath(home)), "strayhome-%d" % os.getpid())
        os.makedirs(stray, exist_ok=True)
        os.environ["HOME"] = stray
    if spec.get("pin_ids"):
        # every run is process 1 of its own container (python experiment.py as the entry point, the data home on a
        # mounted volume): the killed run, the later run and every run after it have the SAME process id and main-thread id
        _real_tid = threading.get_native_id
        _main_ident = threading.get_ident()         # (no current_thread() here: it is called while threads bootstrap)
        _get_ident = threading.get_ident
        os.getpid = lambda: 1
        threading.get_native_id = lambda: 1 if _get_ident() == _main_ident else _real_tid()
    from twverif import import_target
    from twverif.monitors import audit, fakenet
    if spec.get("logging"):
        # the host application configures logging the usual way: records of the library's loggers are really built
        import logging
        logging.basicConfig(level=getattr(logging, spec["logging"]), stream=open(os.devnull, "w"))
    audit.install(spec.get("audit_log"))
    # virtual pauses: installed BEFORE the library is imported, so that `from time import sleep` binds it as well
    sleeps = []
    real_sleep = time.sleep
    time.sleep = lambda s: sleeps.append(float(s))
    import_target()
    import numpy as np
    # the caller is a reproducible script: it seeds the global generators first thing, in EVERY run (the killed run, the
    # later run, every one of several concurrent runs).  Whatever the loader names or decides with them repeats.
    import random as _random
    _random.seed(20240921)
    np.random.seed(20240921)
    import traffic_weaver.datasets as ds
    import traffic_weaver.datasets._base as base
    net = fakenet.install()

    # --- recording / substituting wrapper around the public remote loader (rebound by identity in every module)
    captured = []
    orig_remote = base.load_csv_dataset_from_remote
    substitute = {"on": False}

    tl = threading.local()

    def wrapper(remote, dataset_filename, dataset_folder, *a, **kw):
        captured.append({"thread": getattr(tl, "idx", None), "url": remote.url, "filename": remote.filename, "checksum": remote.checksum,
                         "dataset_filename": dataset_filename, "dataset_folder": dataset_folder,
                         "kwargs": {k: (v if isinstance(v, (bool, int, float, str, type(None))) else repr(v))
                                    for k, v in kw.items()}})
        if substitute["on"]:
            gz = bool(kw.get("gzip", False))
            body = fakenet.payload_bytes(remote.url, "good", net.rows.get(remote.url, 40), gz)
            remote = remote._replace(checksum=fakenet.sha256_hex(body))
        return orig_remote(remote, dataset_filename, dataset_folder, *a, **kw)
    # every reference the library holds to the loader is rebound: module globals of every datasets module (the
    # base module too - table-driven providers call the loader from there) and closure cells of generated functions.
    # A by-name load of a remote name that still produces no capture is reported as "hook not reached" by the
    # checks (inconclusive), never judged on unsubstituted checksums.
    nrebound = 0
    for modname, mod in list(sys.modules.items()):
        if mod is not None and modname.startswith("traffic_weaver.datasets"):
            for attr, val in list(vars(mod).items()):
                if val is orig_remote:
                    setattr(mod, attr, wrapper)
                    nrebound += 1
    import gc
    import types
    for fn in gc.get_objects():
        if isinstance(fn, types.FunctionType) and fn.__closure__ and fn is not wrapper and \
                str(getattr(fn, "__module__", "")).startswith("traffic_weaver"):
            for cell in fn.__closure__:
                try:
                    if cell.cell_contents is orig_remote:
                        cell.cell_contents = wrapper
                        nrebound += 1
                except ValueError:
                    pass

    kp = None
    kill = spec.get("kill")
    if kill or spec.get("yield"):
        kp = KillPoints((kill or {}).get("events", "line"), (kill or {}).get("at"), spec.get("yield"), real_sleep,
                        pause=(kill or {}).get("pause"))
        kp.install()

    results = []
    for si, step in enumerate(spec["steps"]):
        op = step["op"]
        res = {"op": op}
        if op == "net":
            net.configure(step.get("scripts"), step.get("default", "good"), step.get("rows"), step.get("gz"))
            results.append(res)
            continue
        if op == "clear_home":        # harness-side reset between independent loads (not the code under test)
            import shutil
            audit_was = audit.EVENTS[:]
            for e in os.listdir(home):
                pth = os.path.join(home, e)
                shutil.rmtree(pth) if os.path.isdir(pth) else os.remove(pth)
            audit.EVENTS[:] = audit_was
            results.append(res)
            continue
        if op == "set_home":          # the user points TRAFFIC_WEAVER_DATA somewhere else in the same process
            home = step["home"]
            os.makedirs(home, exist_ok=True)
            os.environ["TRAFFIC_WEAVER_DATA"] = home
            results.append(res)
            continue
        if op == "descriptions":      # the shipped description tables through their public accessors
            out_d = {}
            for fn in ("sandvine_dataset_description", "mix_it_dataset_description", "ams_ix_dataset_description",
                       "ix_br_dataset_description"):
                try:
                    out_d[fn] = getattr(ds, fn)()
                except BaseException as e:
                    out_d[fn] = {"error": type(e).__name__ + ": " + str(e)[:200]}
            res["descriptions"] = out_d
            results.append(res)
            continue
        if op == "listing":
            res["listing"] = listing(home)
            results.append(res)
            continue
        if op == "barrier":
            deadline = time.monotonic() + step.get("timeout", 60)
            open(step["ready"], "w").close()
            while not os.path.exists(step["go"]) and time.monotonic() < deadline:
                real_sleep(0.0005)
            results.append(res)
            continue
        m0 = audit.mark()
        r0 = len(net.requests)
        s0 = len(sleeps)
        c0 = len(captured)
        t0 = time.monotonic()
        if kp is not None and (kill is None or kill.get("step", si) == si):
            kp.count = 0
            kp.active = True
        try:
            if op == "remote":
                gz = bool(step.get("gz", False))
                rows = step.get("rows", 40)
                net.rows[step["url"]] = rows
                net.gz[step["url"]] = gz
                cks = step.get("checksum", "good")
                if cks == "good":
                    cks = fakenet.sha256_hex(fakenet.payload_bytes(step["url"], "good", rows, gz))
                remote = base.RemoteFileMetadata(filename=step.get("filename", "file.csv"), url=step["url"],
                                                 checksum=cks)
                kw = dict(step.get("flags", {}))
                for k in ("n_retries", "delay", "validate_checksum"):
                    if k in step:
                        kw[k] = step[k]
                # documented defaults (gzip=False, unpack_dataset_columns=False) are exercised by omission
                if gz or step.get("gz_explicit"):
                    kw["gzip"] = gz
                if "unpack" in step:
                    kw["unpack_dataset_columns"] = bool(step["unpack"])
                data = orig_remote(remote, step.get("dataset_filename", "ds"), step.get("folder", "folder"), **kw)
            elif op == "parallel":
                # several threads of ONE process load different names at the same time; the fake server holds every
                # first response until all requests are in flight
                substitute["on"] = True
                names = step["names"]
                net.hold = threading.Barrier(len(names))
                outs = [None] * len(names)

                def work(i):
                    tl.idx = i
                    try:
                        outs[i] = {"outcome": "ok", "data": data_desc(ds.load_dataset(names[i]))}
                    except BaseException as e:
                        outs[i] = {"outcome": "exc", "exc_type": type(e).__name__, "exc_msg": str(e)[:300]}
                ths = [threading.Thread(target=work, args=(i,)) for i in range(len(names))]
                for t_ in ths:
                    t_.start()
                for t_ in ths:
                    t_.join(timeout=60)
                net.hold = None
                for i, o in enumerate(outs):
                    if o is not None:
                        o["captured"] = [c for c in captured[c0:] if c.get("thread") == i]
                res["parallel"] = outs
                data = None
            elif op == "by_name":
                substitute["on"] = bool(step.get("substitute", False))
                if "unpack" in step:
                    data = ds.load_dataset(step["name"], unpack_dataset_columns=bool(step["unpack"]))
                else:
                    data = ds.load_dataset(step["name"])
            else:
                raise KeyError(op)
            res["outcome"] = "ok"
            res["data"] = data_desc(data)
        except BaseException as e:
            res["outcome"] = "exc"
            res["exc_type"] = type(e).__name__
            res["exc_mro"] = [c.__name__ for c in type(e).__mro__]
            res["exc_msg"] = str(e)[:300]
        finally:
            if kp is not None:
                kp.active = False
        if kp is not None:
            res["events_counted"] = kp.count
        res["requests"] = net.requests[r0:]
        res["sleeps"] = sleeps[s0:]
        res["elapsed"] = time.monotonic() - t0      # real time: pauses taken by other means than time.sleep show here
        res["audit"] = audit.since(m0)
        res["captured"] = captured[c0:]
        results.append(res)
    out = {"results": results, "rebound": nrebound, "pid": os.getpid()}
    sys.stdout.write("TWVERIF-RESULT " + json.dumps(out) + "\n")
    sys.stdout.flush()
    return 0


if __name__ == "__main__":
    sys.exit(main(sys.argv[1:]))
