"""Executable reference model of the four transition-window strategies, written from the class
docstrings of rfa.py and the function docstrings of funfit.py (not from the code).

Geometry: the series of m averages y_0..y_{m-1} at abscissae x_0..x_{m-1} defines m-1 real intervals
k = 0..m-2 of n samples each (sample i of interval k sits at x_k + (x_{k+1}-x_k)*i/n) plus the final sample.
One virtual interval is added on each side (mirror width; value y_0 on the left, y_{m-1} on the right).
"""
from fractions import Fraction as Fr


def lin(x, p0, p1):
    (x0, y0), (x1, y1) = p0, p1
    return y0 + (y1 - y0) * (x - x0) / (x1 - x0)


def blend_up(x, p0, p1, e):
    """lin_exp_xy_fit: t*(power curve mirrored) + (1-t)*line -> going INTO the plateau"""
    (x0, y0), (x1, y1) = p0, p1
    t = (x - x0) / (x1 - x0)
    return (y0 + (y1 - y0) * (1 - (1 - t) ** e)) * t + (y0 + (y1 - y0) * t) * (1 - t)


def blend_down(x, p0, p1, e):
    """exp_lin_fit: t*line + (1-t)*power curve -> LEAVING the plateau"""
    (x0, y0), (x1, y1) = p0, p1
    t = (x - x0) / (x1 - x0)
    return (y0 + (y1 - y0) * t) * t + (y0 + (y1 - y0) * t ** e) * (1 - t)


def window_total(n, alpha=1.0, a=None):
    """documented rule: a = alpha*n unless given, truncated, never below 2"""
    if a is None:
        a = alpha * n
    a = int(a)
    return max(a, 2)


class Grid:
    def __init__(self, x, n):
        self.n = n
        x = [float(v) for v in x]
        w0 = x[1] - x[0]
        w1 = x[-1] - x[-2]
        self.xe = [x[0] - w0] + x + [x[-1] + w1]

    def P(self, k, i):
        j = k * self.n + i
        kk, ii = divmod(j, self.n)
        kk += 1
        return self.xe[kk] + (self.xe[kk + 1] - self.xe[kk]) * ii / self.n


def _trunc_consistent(exact, floats):
    """True when every float evaluation truncates like the exact rational and the value is not within
    1e-9 of an integer (unless it is exactly that integer in every evaluation)."""
    fl = exact.numerator // exact.denominator
    if any(int(v) != fl for v in floats):
        return False
    near = abs(exact - round(exact))
    if near == 0:
        return all(float(v) == float(round(exact)) for v in floats)
    return near >= Fr(1, 10 ** 9)


def windows_fixed(m, a):
    return [a // 2] * (m + 1), [a // 2] * (m + 1), False


def windows_adaptive(y, a):
    """index k+1 holds interval k (k = -1 .. m-1).  Returns (a_l, a_r, knife_edge)."""
    m = len(y)

    def Y(k):
        return y[0] if k < 0 else y[min(k, m - 1)]
    al, ar, knife = [1], [1], False
    for k in range(0, m - 1):
        r = abs(Fr(float(Y(k + 1))) - Fr(float(Y(k))))
        l = abs(Fr(float(Y(k))) - Fr(float(Y(k - 1))))
        if r == 0 and l == 0:
            al.append(0)
            ar.append(0)
        elif r == 0:           # only the left border jumps
            al.append(a // 2)
            ar.append(0)
        elif l == 0:           # only the right border jumps
            al.append(0)
            ar.append(a // 2)
        else:
            g = r / l
            L = min(max(g * a / (1 + g), 1), a - 1)
            R = min(max(Fr(a) / (1 + g), 1), a - 1)
            gf = abs(float(Y(k + 1)) - float(Y(k))) / abs(float(Y(k)) - float(Y(k - 1)))
            Lf = [min(max(v, 1), a - 1) for v in (gf * a / (1 + gf), a * gf / (1 + gf), a / (1 + 1 / gf),
                                                   a - a / (1 + gf))]
            Rf = [min(max(v, 1), a - 1) for v in (a / (1 + gf), a - gf * a / (1 + gf), a * (1 / (1 + gf)))]
            if not (_trunc_consistent(L, Lf) and _trunc_consistent(R, Rf)):
                knife = True
            al.append(int(L))
            ar.append(int(R))
    al.append(1)
    ar.append(1)
    return al, ar, knife


def model(kind, x, y, n, a, beta=0.5, e=2.0):
    """Returns (values for samples 0..(m-1)*n  [last one None: not judged], windows, knife_edge)."""
    x = [float(v) for v in x]
    y = [float(v) for v in y]
    m = len(x)
    G = Grid(x, n)
    P = G.P

    def Y(k):
        return y[0] if k < 0 else y[min(k, m - 1)]
    expo = kind.startswith("Exp")
    adaptive = "Adaptive" in kind
    AL, AR, knife = windows_adaptive(y, a) if adaptive else windows_fixed(m, a)

    def al(k):
        return AL[k + 1]

    def ar(k):
        return AR[k + 1]

    def Z(k):  # value at the border between intervals k-1 and k
        if ar(k - 1) == 0 and al(k) == 0:
            return Y(k - 1)
        return lin(P(k, 0), (P(k, -ar(k - 1)), Y(k - 1)), (P(k, al(k)), Y(k)))
    out = [None] * ((m - 1) * n + 1)
    for k in range(m - 1):
        L, R = al(k), ar(k)
        zl, zr, yk = Z(k), Z(k + 1), Y(k)
        bl = int(beta * L) if expo else L
        br = int(beta * R) if expo else R
        for i in range(n):
            xi = P(k, i)
            if i < L:
                if not expo or i < bl:
                    v = lin(xi, (P(k, 0), zl), (P(k, L), yk))
                else:
                    zb = lin(P(k, bl), (P(k, 0), zl), (P(k, L), yk))
                    v = blend_up(xi, (P(k, bl), zb), (P(k, L), yk), e)
            elif i <= n - R:
                v = yk
            else:
                if not expo or i >= n - br:
                    v = lin(xi, (P(k, n - R), yk), (P(k, n), zr))
                else:
                    zb = lin(P(k, n - br), (P(k, n - R), yk), (P(k, n), zr))
                    v = blend_down(xi, (P(k, n - R), yk), (P(k, n - br), zb), e)
            out[k * n + i] = v
    return out, (AL, AR), knife


def segments(kind, L, R, n, beta):
    """index sets of an interval: ('lin'|'blend'|'plateau') per sample i in 0..n-1, for classification only"""
    expo = kind.startswith("Exp")
    bl = int(beta * L) if expo else L
    br = int(beta * R) if expo else R
    seg = []
    for i in range(n):
        if i < L:
            seg.append("lin" if (not expo or i < bl) else "blend")
        elif i <= n - R:
            seg.append("plateau")
        else:
            seg.append("lin" if (not expo or i >= n - br) else "blend")
    return seg
