"""Own implementations of the two integration rules (per interval and over index ranges)."""
import math


def rect(x, y, i, j):
    """rectangle (left value) integral of samples i..j (closed index range)."""
    return math.fsum(float(y[k]) * (float(x[k + 1]) - float(x[k])) for k in range(i, j))


def trap(x, y, i, j):
    return math.fsum((float(y[k]) + float(y[k + 1])) / 2.0 * (float(x[k + 1]) - float(x[k])) for k in range(i, j))


def integ(x, y, i, j, rule):
    if rule == "rectangle":
        return rect(x, y, i, j)
    if rule == "trapezoid":
        return trap(x, y, i, j)
    raise KeyError(rule)


def scale(x, y, i, j, rule):
    """sum of absolute terms entering the integral (for the rounding bound)."""
    if rule == "rectangle":
        return math.fsum(abs(float(y[k])) * (float(x[k + 1]) - float(x[k])) for k in range(i, j))
    return math.fsum((abs(float(y[k])) + abs(float(y[k + 1]))) / 2.0 * (float(x[k + 1]) - float(x[k]))
                     for k in range(i, j))
