"""Definition of the three neighbour searches by exhaustive scan (no shared code with the repository)."""


BISECT_ABOVE = 2000       # long arrays: the same definitions by binary search (the array is strictly increasing)


def lower(x, q, fill=True):
    """index of the largest element <= q; below the range: 0 (fill) or -1."""
    if len(x) > BISECT_ABOVE:
        import bisect
        i = bisect.bisect_right(x, q) - 1
        return i if i >= 0 else (0 if fill else -1)
    best = None
    for i, v in enumerate(x):
        if v <= q:
            best = i
    if best is None:
        return 0 if fill else -1
    return best


def higher(x, q, fill=True):
    """index of the smallest element >= q; above the range: len-1 (fill) or len."""
    if len(x) > BISECT_ABOVE:
        import bisect
        i = bisect.bisect_left(x, q)
        return i if i < len(x) else (len(x) - 1 if fill else len(x))
    for i, v in enumerate(x):
        if v >= q:
            return i
    return len(x) - 1 if fill else len(x)


def closest(x, q):
    """index of the nearest element, ties to the lower one; outside the range the first / last index."""
    n = len(x)
    if q <= x[0]:
        return 0
    if q >= x[n - 1]:
        return n - 1
    lo = lower(x, q)
    if x[lo] == q:
        return lo
    hi = lo + 1
    return lo if (q - x[lo]) <= (x[hi] - q) else hi


def closest_exact(x, q):
    """closest() with the two distances compared in exact rational arithmetic (floats are dyadic rationals, Python ints are
    exact): what 'the nearest element' means when the rounded difference of two floats cannot tell the distances apart"""
    from fractions import Fraction
    n = len(x)
    if q <= x[0]:
        return 0
    if q >= x[n - 1]:
        return n - 1
    lo = lower(x, q)
    if x[lo] == q:
        return lo
    hi = lo + 1
    a, b, c = x[lo], q, x[hi]
    if any(isinstance(v, float) and (v != v or v in (float("inf"), float("-inf"))) for v in (a, b, c)):
        return lo if (b - a) <= (c - b) else hi
    return lo if Fraction(b) - Fraction(a) <= Fraction(c) - Fraction(b) else hi


def search(x, qs, strategy, fill=True):
    if strategy == "lower":
        return [lower(x, q, fill) for q in qs]
    if strategy == "higher":
        return [higher(x, q, fill) for q in qs]
    if strategy == "closest":
        return [closest(x, q) for q in qs]
    raise KeyError(strategy)
