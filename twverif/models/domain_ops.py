"""Shadow model of the Weaver's ten domain operations, written from their docstrings.

State = (x, y) as float/int NumPy arrays owned by the model.  Every function returns new arrays.
"""
import numpy as np


def append_one_sample(x, y, make_periodic=False):
    x = np.asarray(x, dtype=np.float64)
    y = np.asarray(y, dtype=np.float64)
    return (np.concatenate([x, [2 * x[-1] - x[-2]]]),
            np.concatenate([y, [y[0] if make_periodic else y[-1]]]))


def shift(a, s):
    return a + s


def scale(a, c):
    return a * c


def normalize(a, lo, hi):
    a = np.asarray(a)
    mn, mx = a.min(), a.max()
    return (a - mn) / (mx - mn) * (hi - lo) + lo


def repeat(x, y, r):
    x = np.asarray(x, dtype=float)
    y = np.asarray(y, dtype=float)
    period = (x[-1] - x[0]) + (x[-1] - x[-2])
    xs = np.concatenate([x + k * period for k in range(r)])
    ys = np.concatenate([y for _ in range(r)])
    return xs, ys


def truncate_bounds(x, left, right, left_ratio=False, right_ratio=False):
    """indices (i, j) of the smallest contiguous run covering [left, right] (closed)"""
    if left_ratio:
        left = left * (x[-1] - x[0]) + x[0]
    if right_ratio:
        right = right * (x[-1] - x[0]) + x[0]
    i = 0
    for k in range(len(x)):
        if x[k] <= left:
            i = k
    j = len(x) - 1
    for k in range(len(x) - 1, -1, -1):
        if x[k] >= right:
            j = k
    return i, j, left, right


def truncate_by_value(x, y, left, right, left_ratio=False, right_ratio=False):
    i, j, _l, _r = truncate_bounds(x, left, right, left_ratio, right_ratio)
    return x[i:j + 1], y[i:j + 1]


def truncate_by_index(x, y, start, stop):
    return x[start:stop], y[start:stop]


def apply(op, args, x, y):
    """apply a domain operation named as in the Weaver API"""
    if op == "append_one_sample":
        return append_one_sample(x, y, *args)
    if op == "shift_x":
        return shift(x, args[0]), y
    if op == "shift_y":
        return x, shift(y, args[0])
    if op == "scale_x":
        return scale(x, args[0]), y
    if op == "scale_y":
        return x, scale(y, args[0])
    if op == "normalize_x":
        return normalize(x, *args), y
    if op == "normalize_y":
        return x, normalize(y, *args)
    if op == "repeat":
        return repeat(x, y, args[0])
    if op == "truncate_by_value":
        return truncate_by_value(x, y, *args)
    if op == "truncate_by_index":
        return truncate_by_index(x, y, *args)
    raise KeyError(op)


EXACT_OPS = {"append_one_sample", "shift_x", "shift_y", "scale_x", "scale_y", "truncate_by_value", "truncate_by_index"}


def admissible(op, args, x, y):
    """documented preconditions of the operation on the current state"""
    n = len(x)
    if op in ("append_one_sample", "repeat"):
        return n >= 2 and (op != "repeat" or args[0] >= 1)
    if op == "scale_x":
        return args[0] > 0
    if op == "scale_y":
        return args[0] != 0
    if op == "normalize_x":
        return n >= 2 and args[0] < args[1]
    if op == "normalize_y":
        return args[0] < args[1] and float(np.min(y)) != float(np.max(y))
    if op == "truncate_by_value":
        i, j, l, r = truncate_bounds(x, *args)
        return n >= 2 and l < r and j - i + 1 >= 2
    if op == "truncate_by_index":
        start, stop = args
        stop_ = n if stop is None else (stop if stop >= 0 else n + stop)      # Python slice semantics for a negative stop
        return 0 <= start and 0 <= stop_ <= n and stop_ - start >= 2
    return True
