"""3-10 line definitional models of the array helpers (C17), plain Python lists of floats."""
import math


def oversample_linspace(a, n):
    if n < 2:
        return list(a)
    out = []
    for i in range(len(a) - 1):
        for j in range(n):
            out.append(a[i] + (a[i + 1] - a[i]) * j / n)
    out.append(a[-1])
    return out


def oversample_piecewise_constant(a, n):
    if n < 2:
        return list(a)
    out = []
    for i in range(len(a) - 1):
        out.extend([a[i]] * n)
    out.append(a[-1])
    return out


def extend_linspace(a, n, direction="both", lstart=None, rstop=None):
    a = [float(v) for v in a]
    left, right = [], []
    if direction in ("both", "left"):
        ls = 2 * a[0] - a[n] if lstart is None else lstart
        left = [ls + (a[0] - ls) * j / n for j in range(n)]
    if direction in ("both", "right"):
        # note: the default mirror point is taken on the array as it is at that moment (after a left extension)
        base = left + a
        rs = 2 * base[-1] - base[-n - 1] if rstop is None else rstop
        right = [a[-1] + (rs - a[-1]) * j / n for j in range(1, n + 1)]
    return left + a + right


def extend_constant(a, n, direction="both"):
    a = list(a)
    left = [a[0]] * n if direction in ("both", "left") else []
    right = [a[-1]] * n if direction in ("both", "right") else []
    return left + a + right


def append_one_sample(x, y, periodic=False):
    return list(x) + [2 * x[-1] - x[-2]], list(y) + [y[0] if periodic else y[-1]]


def rectangle(x, y):
    return [y[i] * (x[i + 1] - x[i]) for i in range(len(x) - 1)]


def trapezoid(x, y):
    return [(y[i] + y[i + 1]) / 2 * (x[i + 1] - x[i]) for i in range(len(x) - 1)]


def sum_over_indices(a, idx):
    return [math.fsum(a[s:e]) for s, e in zip(idx[:-1], idx[1:])]


def rows(a, n):
    """row-by-row layout with NaN padding"""
    a = [float(v) for v in a]
    m = -(-len(a) // n) if len(a) else 0
    pad = a + [float("nan")] * (m * n - len(a))
    return [pad[i * n:(i + 1) * n] for i in range(m)]


def closed_rows(a, n, drop_last=True):
    r = rows(a, n)
    out = [row + [r[i + 1][0] if i + 1 < len(r) else float("nan")] for i, row in enumerate(r)]
    return out[:-1] if drop_last else out


def average(x, y, n):
    rx, ry = rows(x, n), rows(y, n)
    ax = [r[0] for r in rx]
    ay = []
    for r in ry:
        v = [u for u in r if u == u]
        if not v:                           # nothing but padding / missing samples in this row
            ay.append(float("nan"))
            continue
        try:
            ay.append(math.fsum(v) / len(v))
        except ValueError:                  # +inf and -inf in one row: the mean is undefined
            ay.append(float("nan"))
    return ax, ay
