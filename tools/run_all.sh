#!/bin/bash
# usage: tools/run_all.sh <tier> [seed]   -- every registered check once; prints one line per check and validates evidence
cd "$(dirname "$0")/.."
TIER="${1:-quick}"; export VERIF_SEED="${2:-0}"
rc_all=0
for id in $(/venv/bin/python -c "import json; print(' '.join(c['property_id'] for c in json.load(open('MANIFEST.json'))['checks']))"); do
  t0=$(date +%s.%N)
  out=$(./check $id $TIER 2>&1); rc=$?
  t1=$(date +%s.%N)
  echo "$id rc=$rc $(printf '%.1f' $(echo "$t1-$t0" | bc))s $(echo "$out" | head -1 | cut -c1-150)"
  if [ $rc -ne 0 ]; then rc_all=1; echo "$out" | head -12; fi
done
python3-vt - <<'P'
import json, jsonschema, glob
s = json.load(open('/root/.vp/EVIDENCE.schema.json'))
bad = 0
for f in sorted(glob.glob('evidence/*.json')):
    try:
        jsonschema.validate(json.load(open(f)), s)
    except Exception as e:
        bad += 1; print("INVALID", f, str(e)[:200])
print("evidence files valid" if not bad else "%d invalid evidence files" % bad)
P
exit $rc_all
