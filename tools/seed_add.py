#!/venv/bin/python
"""usage: tools/seed_add.py <ID> <variant> <src_dir> "<what it needs to manifest>" [extra check IDs...]
Confirms a seeded change in a scratch worktree of /repo's HEAD and files it under /verif/seeded/<ID>-<variant>/
(patch.diff, demo.py, notes.md if present, meta.json with what was run and which checks caught it)."""
import json
import os
import re
import shutil
import subprocess
import sys
import tempfile

ID, var, src, needs = sys.argv[1:5]
extra = sys.argv[5:]
dst = "/verif/seeded/%s-%s" % (ID, var)
os.makedirs(dst, exist_ok=True)
sfx = "" if var[0] in "HRSTUVWXY" else var          # second-round ("hard") seeds come as patch.diff / demo.py
shutil.copy(os.path.join(src, "patch%s.diff" % sfx), os.path.join(dst, "patch.diff"))
shutil.copy(os.path.join(src, "demo%s.py" % sfx), os.path.join(dst, "demo.py"))
notes = os.path.join(src, "notes.md")
if os.path.exists(notes):
    shutil.copy(notes, os.path.join(dst, "notes-from-author.md"))
W = tempfile.mkdtemp(prefix="twseed.")
os.rmdir(W)
subprocess.run(["git", "-C", "/repo", "worktree", "add", "-q", "--detach", W, "HEAD"], check=True)
head = subprocess.run(["git", "-C", "/repo", "rev-parse", "--short", "HEAD"], capture_output=True, text=True).stdout.strip()
meta = {"property": ID, "variant": var, "needs_to_manifest": needs, "repo_head": head, "ran": []}
if os.environ.get("SEED_NOTE"):
    meta["history"] = os.environ["SEED_NOTE"]
try:
    def demo():
        return subprocess.run(["/venv/bin/python", os.path.join(dst, "demo.py"), W], capture_output=True, text=True,
                              timeout=300).returncode
    meta["demo_exit_without_patch"] = demo()
    ap = subprocess.run(["git", "-C", W, "apply", "--3way", os.path.join(dst, "patch.diff")], capture_output=True, text=True)
    meta["patch_applies"] = ap.returncode == 0
    if ap.returncode != 0:
        meta["apply_error"] = ap.stderr[-500:]
    else:
        meta["demo_exit_with_patch"] = demo()
        t = subprocess.run(["/venv/bin/python", "-m", "pytest", "-q", "-p", "no:cacheprovider", "--no-cov"], cwd=W,
                           capture_output=True, text=True)
        meta["repository_suite_with_patch"] = t.stdout.strip().splitlines()[-1]
        env = dict(os.environ, TWVERIF_REPO=W, TWVERIF_NO_EVIDENCE="1")
        caught = {}
        for cid in [ID] + extra:
            for tier in (("quick",) if os.environ.get("SEED_QUICK_ONLY") else ("quick", "thorough")):
                p = subprocess.run(["./check", cid, tier], cwd="/verif", env=env, capture_output=True, text=True)
                clauses = sorted(set(re.findall(r"clause: (\S+)", p.stdout)))
                meta["ran"].append({"cmd": "TWVERIF_REPO=<scratch worktree with patch> ./check %s %s" % (cid, tier),
                                    "exit": p.returncode, "clauses": clauses,
                                    "summary": p.stdout.splitlines()[0] if p.stdout else ""})
                if p.returncode == 1:
                    caught[cid] = {"tier": tier, "clauses": clauses}
                    break
        meta["caught_by"] = caught
finally:
    subprocess.run(["git", "-C", "/repo", "worktree", "remove", "--force", W])
    subprocess.run(["git", "-C", "/verif", "checkout", "-q", "--", "evidence"])
ok = meta.get("demo_exit_without_patch") == 0 and meta.get("demo_exit_with_patch") == 1 and \
    "170 passed" in meta.get("repository_suite_with_patch", "")
meta["confirmed"] = bool(ok)
json.dump(meta, open(os.path.join(dst, "meta.json"), "w"), indent=1)
print(ID, var, "confirmed" if ok else "NOT CONFIRMED", "caught_by:", json.dumps(meta.get("caught_by")))
