#!/bin/bash
# usage: tools/mut.sh <file-relative-to-repo> <python-expr old> <new> <ID> [tier]  -- applies a textual mutant in a scratch
# worktree (outside /repo and /verif), runs the check against it, removes the worktree.
set -u
F="$1"; OLD="$2"; NEW="$3"; ID="$4"; TIER="${5:-quick}"
W=$(mktemp -d /tmp/twmut.XXXXXX); rmdir "$W"
git -C /repo worktree add -q --detach "$W" HEAD || exit 9
/venv/bin/python - "$W/$F" "$OLD" "$NEW" <<'P' || { git -C /repo worktree remove --force "$W"; exit 8; }
import sys
p, old, new = sys.argv[1:4]
s = open(p).read()
if s.count(old) < 1:
    print("MUTANT PATTERN NOT FOUND"); sys.exit(1)
s = s.replace(old, new, 1)
open(p, "w").write(s)
P
( cd /verif && TWVERIF_REPO="$W" TWVERIF_HOME_EVIDENCE_SKIP=1 ./check "$ID" "$TIER" | grep -E "VIOLATION|held|inconclusive|INCONCLUSIVE|KNOWN|clause" | head -5; echo "-----" )
git -C /repo worktree remove --force "$W"
git -C /verif checkout -q -- evidence 2>/dev/null
