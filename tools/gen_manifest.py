#!/venv/bin/python
"""Regenerate /verif/MANIFEST.json from the check modules that exist (run from /verif)."""
import importlib
import json
import os
import subprocess
import sys

HERE = os.path.dirname(os.path.dirname(os.path.abspath(__file__)))
sys.path.insert(0, HERE)
sys.path.insert(0, "/repo/src")

props = [json.loads(l) for l in open(os.path.join(HERE, "properties.jsonl"))]
checks, na = [], []
for p in props:
    pid = p["id"]
    path = os.path.join(HERE, "twverif", "checks", pid.lower() + ".py")
    if not os.path.exists(path):
        na.append({"property_id": pid, "reason": "check not built yet in this session (planned, see DESIGN.md section 4)"})
        continue
    mod = importlib.import_module("twverif.checks." + pid.lower())
    checks.append({
        "property_id": pid,
        "quick_cmd": "./check %s quick" % pid,
        "thorough_cmd": "./check %s thorough" % pid,
        "evidence_file": "/verif/evidence/%s.json" % pid,
        "replay_cmd_template": "./check %s --replay {path}" % pid,
        "engine": "twverif",
        "level_claimed": {"category": mod.LEVEL, "text": mod.LEVEL_TEXT, "design_ref": "DESIGN.md section 4, " + pid},
        "level_note": mod.LEVEL_NOTE,
        "technique": mod.TECHNIQUE,
    })

fixes = subprocess.run(["git", "-C", "/repo", "log", "--format=%h %s", "--grep=^fix:"], capture_output=True,
                       text=True).stdout.strip().splitlines()
manifest = {
    "version": 1,
    "setup_cmd": "./check --setup",
    "hooks": {
        "guard": "TRAFFIC_WEAVER_VERIF",
        "enable": "no source hooks: all monitors are attached from the harness process after importing the real "
                  "modules from /repo/src (contracts rebound by identity, audit hooks, sys.monitoring, fake urllib "
                  "opener); ./check exports TRAFFIC_WEAVER_VERIF=1 for uniformity but the repository never reads it",
        "baseline_off_cmd": "cd /repo && /venv/bin/python -m pytest -ra -q -p no:cacheprovider --timeout=900 "
                            "--continue-on-collection-errors",
        "source_commits": [],
        "add_only": True,
    },
    "engines": [{"name": "twverif", "path": "/verif/twverif",
                 "serves_properties": [c["property_id"] for c in checks],
                 "kind_free_text": "runtime monitoring: post-conditions / invariants / reference-model monitors "
                                   "attached to the real functions, executed under generated, exhaustive-small-scope "
                                   "and fault-injected workloads in subprocess shards; 3-valued verdicts"}],
    "checks": checks,
    "not_applicable": na,
    "notes": "Genuine defects of the pinned tree were repaired in /repo as separate 'fix:' commits (%d): %s. "
             "Known findings and fixed entries: /verif/known_findings.json. VERIF_SEED seeds every random choice; "
             "exit 0 held, 1 violation (VIOLATION line), 2 inconclusive." % (len(fixes), "; ".join(fixes)),
}
with open(os.path.join(HERE, "MANIFEST.json"), "w") as f:
    json.dump(manifest, f, indent=1)
print("checks:", len(checks), "not_applicable:", len(na))
