#!/bin/bash
# usage: tools/seed_eval.sh <patch.diff> <demo.py> <ID> [more IDs...]
# Confirms a seeded change in a scratch worktree of /repo's HEAD (demo fails with it and passes without, the
# repository's own suite still passes), then runs the named checks (quick, then thorough if quick misses) against it.
PATCH="$1"; DEMO="$2"; shift 2
W=$(mktemp -d /tmp/twseed.XXXXXX); rmdir "$W"
git -C /repo worktree add -q --detach "$W" HEAD || exit 9
cleanup() { git -C /repo worktree remove --force "$W"; git -C /verif checkout -q -- evidence 2>/dev/null; }
trap cleanup EXIT
timeout 120 /venv/bin/python "$DEMO" "$W" >/dev/null 2>&1; echo "demo_without_patch_exit=$?"
if ! git -C "$W" apply --3way "$PATCH" 2>/tmp/apply.err; then echo "PATCH_DOES_NOT_APPLY"; head -5 /tmp/apply.err; exit 7; fi
timeout 120 /venv/bin/python "$DEMO" "$W" >/dev/null 2>&1; echo "demo_with_patch_exit=$?"
( cd "$W" && /venv/bin/python -m pytest -q -p no:cacheprovider --no-cov 2>&1 | tail -1 )
for ID in "$@"; do
  out=$(cd /verif && TWVERIF_NO_EVIDENCE=1 TWVERIF_REPO="$W" ./check "$ID" quick 2>&1); rc=$?
  echo "$ID quick rc=$rc: $(echo "$out" | grep -E 'clause:' | sort | uniq -c | head -4 | tr '\n' ';')"
  if [ $rc -eq 0 ]; then
    out=$(cd /verif && TWVERIF_NO_EVIDENCE=1 TWVERIF_REPO="$W" ./check "$ID" thorough 2>&1); rc=$?
    echo "$ID thorough rc=$rc: $(echo "$out" | grep -E 'clause:' | sort | uniq -c | head -4 | tr '\n' ';')"
  fi
done
