#!/venv/bin/python
"""Systematic mutation sweep: token-level mutants of the library source that survive the repository's own suite are
run against the quick tier of the checks mapped to the mutated file.  Nothing is written to /repo or to
/verif/evidence; results go to the JSON file given as argv[1].

usage: tools/mutsweep.py <out.json> [--sample N] [--seed S] [--files a.py,b.py] [--jobs J]
"""
import argparse
import io
import json
import os
import random
import re
import shutil
import subprocess
import sys
import tempfile
import time
import tokenize
from concurrent.futures import ThreadPoolExecutor

HERE = os.path.dirname(os.path.dirname(os.path.abspath(__file__)))
SRC = "src/traffic_weaver"
FILE_CHECKS = {
    "match.py": ["C01", "C03", "C02", "C20", "C08"],
    "sorted_array_utils.py": ["C10", "C17", "C04", "C01", "C11", "C13", "C02", "C20"],
    "process.py": ["C11", "C12", "C13", "C14", "C15", "C16", "C17", "C02", "C20", "C09"],
    "rfa.py": ["C04", "C05", "C06", "C07", "C02", "C20"],
    "funfit.py": ["C06", "C05", "C07"],
    "interval.py": ["C17", "C04", "C05", "C06"],
    "weaver.py": ["C09", "C08", "C11", "C13", "C20", "C12", "C14", "C16", "C15", "C02"],
    "datasets/_base.py": ["C18", "C19", "C20"],
    "datasets/_ams_ix.py": ["C18", "C19"],
    "datasets/_datasets.py": ["C18"],
}
SWAPS = {"<=": ["<"], "<": ["<="], ">=": [">"], ">": [">="], "==": ["!="], "!=": ["=="], "+": ["-"], "-": ["+"],
         "*": ["/"], "/": ["*"], "**": ["*"], "//": ["/"], "+=": ["-="], "-=": ["+="]}
WORDS = {"and": ["or"], "or": ["and"], "True": ["False"], "False": ["True"], "not": [""], "min": ["max"], "max": ["min"],
         "abs": [""]}


def mutants_of(path):
    src = open(path).read()
    out = []
    toks = list(tokenize.generate_tokens(io.StringIO(src).readline))
    lines = src.splitlines(keepends=True)
    offs = [0]
    for l in lines:
        offs.append(offs[-1] + len(l))

    def pos(rc):
        return offs[rc[0] - 1] + rc[1]
    depth_decorator = False
    for i, t in enumerate(toks):
        rep = []
        if t.type == tokenize.OP and t.string in SWAPS:
            # skip unary minus on literals in default args? keep: cheap
            prev = toks[i - 1] if i else None
            if t.string in "+-" and (prev is None or prev.type == tokenize.OP and prev.string in "(,=[:" or
                                     prev.type in (tokenize.NEWLINE, tokenize.NL, tokenize.INDENT)):
                continue        # unary
            if t.string == "*" and prev is not None and prev.string in "(,":
                continue        # star-args
            if t.string == "**" and prev is not None and prev.string in "(,":
                continue
            rep = SWAPS[t.string]
        elif t.type == tokenize.NAME and t.string in WORDS:
            rep = WORDS[t.string]
        elif t.type == tokenize.NUMBER and re.fullmatch(r"\d+", t.string):
            k = int(t.string)
            rep = [str(k + 1)] + ([str(k - 1)] if k > 0 else [])
        elif t.type == tokenize.NUMBER and re.fullmatch(r"\d*\.\d+|\d+\.\d*", t.string):
            rep = [repr(float(t.string) * 2), repr(float(t.string) + 1.0)]
        for r in rep:
            a, b = pos(t.start), pos(t.end)
            new = src[:a] + r + src[b:]
            out.append({"line": t.start[0], "col": t.start[1], "old": t.string, "new": r,
                        "text": lines[t.start[0] - 1].strip()[:120], "source": new})
    return out


def run(cmd, cwd, env=None, timeout=900):
    env = dict(env or os.environ, PYTHONDONTWRITEBYTECODE="1")     # no stale .pyc between same-size mutants
    try:
        p = subprocess.run(cmd, cwd=cwd, env=env, capture_output=True, text=True, timeout=timeout)
        return p.returncode, p.stdout
    except subprocess.TimeoutExpired:
        return 124, ""


def baseline_pass_set(tree):
    rc, out = run(["/venv/bin/python", "-m", "pytest", "-q", "-p", "no:cacheprovider", "--no-cov", "-rA"], tree)
    return set(re.findall(r"^PASSED (\S+)", out, re.M))


def evaluate(job):
    tree, rel, m, base = job
    path = os.path.join(tree, SRC, rel)
    orig = open(path).read()
    res = {"file": rel, "line": m["line"], "old": m["old"], "new": m["new"], "text": m["text"]}
    try:
        open(path, "w").write(m["source"])
        try:
            compile(m["source"], path, "exec")
        except SyntaxError:
            res["status"] = "syntax"
            return res
        rc, out = run(["/venv/bin/python", "-m", "pytest", "-q", "-p", "no:cacheprovider", "--no-cov", "-rA"], tree,
                      timeout=300)
        passed = set(re.findall(r"^PASSED (\S+)", out, re.M))
        if rc == 124 or not base <= passed:
            res["status"] = "killed_by_suite"
            return res
        env = dict(os.environ, TWVERIF_REPO=tree, TWVERIF_NO_EVIDENCE="1")
        res["status"] = "survived_checks"
        res["ran"] = []
        for cid in FILE_CHECKS[rel]:
            t0 = time.time()
            rc, out = run(["./check", cid, "quick"], HERE, env)
            res["ran"].append([cid, rc, round(time.time() - t0, 1)])
            if rc == 1:
                res["status"] = "caught"
                res["caught_by"] = cid
                res["clauses"] = sorted(set(re.findall(r"clause: (\S+)", out)))[:4]
                break
            if rc == 2:
                res["status"] = "inconclusive"
                res["caught_by"] = cid
                res["reasons"] = re.findall(r"INCONCLUSIVE.*", out)[:3]
                break
        return res
    finally:
        open(path, "w").write(orig)


def main():
    ap = argparse.ArgumentParser()
    ap.add_argument("out")
    ap.add_argument("--sample", type=int, default=0)
    ap.add_argument("--seed", type=int, default=0)
    ap.add_argument("--files", default=",".join(FILE_CHECKS))
    ap.add_argument("--jobs", type=int, default=2)
    a = ap.parse_args()
    trees = []
    for j in range(a.jobs):
        w = tempfile.mkdtemp(prefix="twsweep.")
        os.rmdir(w)
        subprocess.run(["git", "-C", "/repo", "worktree", "add", "-q", "--detach", w, "HEAD"], check=True)
        trees.append(w)
    try:
        base = baseline_pass_set(trees[0])
        print("baseline passing tests:", len(base), flush=True)
        allm = []
        for rel in a.files.split(","):
            for m in mutants_of(os.path.join(trees[0], SRC, rel)):
                allm.append((rel, m))
        print("mutants generated:", len(allm), flush=True)
        rnd = random.Random(a.seed)
        if a.sample and a.sample < len(allm):
            allm = rnd.sample(allm, a.sample)
        results = []
        queues = [allm[j::a.jobs] for j in range(a.jobs)]

        def worker(j):
            for rel, m in queues[j]:
                r = evaluate((trees[j], rel, m, base))
                results.append(r)
                if r["status"] not in ("killed_by_suite", "syntax"):
                    print(r["status"], r["file"], r["line"], repr(r["old"]), "->", repr(r["new"]), "|", r["text"],
                          "|", r.get("caught_by"), r.get("clauses"), flush=True)
                if len(results) % 20 == 0:
                    json.dump(results, open(a.out, "w"), indent=0)
        with ThreadPoolExecutor(a.jobs) as ex:
            list(ex.map(worker, range(a.jobs)))
        json.dump(results, open(a.out, "w"), indent=0)
        from collections import Counter
        c = Counter(r["status"] for r in results)
        print("SUMMARY", dict(c), flush=True)
        for r in results:
            if r["status"] in ("survived_checks", "inconclusive"):
                print("NOT CAUGHT", r["file"], r["line"], repr(r["old"]), "->", repr(r["new"]), "|", r["text"], flush=True)
    finally:
        for w in trees:
            subprocess.run(["git", "-C", "/repo", "worktree", "remove", "--force", w])


if __name__ == "__main__":
    main()
